package bkbn254

import (
	"bytes"
	"encoding/binary"
	"fmt"
	"strings"

	curve "github.com/consensys/gnark-crypto/ecc/bn254"
	"github.com/consensys/gnark-crypto/ecc/bn254/fr"
	"github.com/consensys/gnark-crypto/ecc/bn254/kzg"
	gengroth16 "github.com/consensys/gnark/backend/groth16"
	groth16 "github.com/consensys/gnark/backend/groth16/bn254"
	genplonk "github.com/consensys/gnark/backend/plonk"
	plonk "github.com/consensys/gnark/backend/plonk/bn254"
	"github.com/consensys/gnark/backend/witness"
	"github.com/consensys/gnark/internal/verifh/bk"
	"github.com/consensys/gnark/internal/verifh/vh"
)

// C08: decoders and verifiers of untrusted data return errors, never crash.
// Environment = the bytes / objects an untrusted prover sends.  Alphabet: every prefix, every
// single-byte substitution, every length-field rewrite, every list length 0..n+2, header /
// payload mismatches of the witness, and pairs (one proof edit x one witness edit).

type untrusted struct {
	name  string
	idx   int // running index of inputs (crash attribution / restart)
	from  int
	// verify decodes proof bytes and witness bytes and runs the generic Verify; returns
	// (decoded, accepted, error string).  Must never panic.
	proofBytes [][]byte // WriteTo, WriteRawTo
	witBytes   []byte
	verify     func(pb, wb []byte, viaPublic bool) (decoded bool, accepted bool, info string)
	// reference acceptance for a decoded (proof bytes, witness bytes) pair; nil = a-priori (only the genuine pair)
	nameLists  []string
	relen      func(list string, n int) [][]byte // re-encoded proof whose list has n entries (both encodings)
}

func decodeWitness(wb []byte) (witness.Witness, error) {
	w, err := witness.New(CurveID.ScalarField())
	if err != nil {
		return nil, err
	}
	if err := w.UnmarshalBinary(wb); err != nil {
		return nil, err
	}
	return w, nil
}

func g16Untrusted(g *g16Case) *untrusted {
	u := &untrusted{name: "groth16/" + g.Name, nameLists: []string{"Commitments"}}
	enc := func(p *groth16.Proof) [][]byte {
		var a, b bytes.Buffer
		p.WriteTo(&a)
		p.WriteRawTo(&b)
		return [][]byte{a.Bytes(), b.Bytes()}
	}
	u.proofBytes = enc(g.proof[0])
	pw, _ := g.full[0].Public()
	u.witBytes, _ = pw.MarshalBinary()
	u.verify = func(pb, wb []byte, viaPublic bool) (bool, bool, string) {
		p := new(groth16.Proof)
		if _, err := p.ReadFrom(bytes.NewReader(pb)); err != nil {
			return false, false, "proof: " + err.Error()
		}
		w, err := decodeWitness(wb)
		if err != nil {
			return false, false, "witness: " + err.Error()
		}
		if viaPublic {
			if w, err = w.Public(); err != nil {
				return false, false, "witness.Public: " + err.Error()
			}
		}
		verr := gengroth16.Verify(p, g.vk, w)
		vec, _ := w.Vector().(fr.Vector)
		ref := refG16(p, g.vk, vec)
		if (verr == nil) != ref {
			return true, verr == nil, fmt.Sprintf("DISAGREE real=%v ref=%v err=%v", verr == nil, ref, verr)
		}
		return true, verr == nil, fmt.Sprint(verr)
	}
	u.relen = func(list string, n int) [][]byte {
		p := cloneProof(g.proof[0])
		_, _, g1, _ := curve.Generators()
		for len(p.Commitments) < n {
			if len(g.proof[0].Commitments) > 0 {
				p.Commitments = append(p.Commitments, g.proof[0].Commitments[len(p.Commitments)%len(g.proof[0].Commitments)])
			} else {
				p.Commitments = append(p.Commitments, g1)
			}
		}
		p.Commitments = p.Commitments[:n]
		return enc(p)
	}
	return u
}

func plonkUntrusted(g *plonkCase) *untrusted {
	u := &untrusted{name: "plonk/" + g.Name, nameLists: []string{"Bsb22Commitments", "ClaimedValues"}}
	enc := func(p *plonk.Proof) [][]byte {
		var a, b bytes.Buffer
		p.WriteTo(&a)
		p.WriteRawTo(&b)
		return [][]byte{a.Bytes(), b.Bytes()}
	}
	u.proofBytes = enc(g.proof[0])
	pw, _ := g.full[0].Public()
	u.witBytes, _ = pw.MarshalBinary()
	orig := g.proof[0]
	same := func(p *plonk.Proof) bool {
		if p.LRO != orig.LRO || p.Z != orig.Z || p.H != orig.H || p.BatchedProof.H != orig.BatchedProof.H || p.ZShiftedOpening != orig.ZShiftedOpening {
			return false
		}
		if len(p.Bsb22Commitments) != len(orig.Bsb22Commitments) || len(p.BatchedProof.ClaimedValues) != len(orig.BatchedProof.ClaimedValues) {
			return false
		}
		for i := range p.Bsb22Commitments {
			if p.Bsb22Commitments[i] != orig.Bsb22Commitments[i] {
				return false
			}
		}
		for i := range p.BatchedProof.ClaimedValues {
			if p.BatchedProof.ClaimedValues[i] != orig.BatchedProof.ClaimedValues[i] {
				return false
			}
		}
		return true
	}
	u.verify = func(pb, wb []byte, viaPublic bool) (bool, bool, string) {
		p := new(plonk.Proof)
		if _, err := p.ReadFrom(bytes.NewReader(pb)); err != nil {
			return false, false, "proof: " + err.Error()
		}
		w, err := decodeWitness(wb)
		if err != nil {
			return false, false, "witness: " + err.Error()
		}
		if viaPublic {
			if w, err = w.Public(); err != nil {
				return false, false, "witness.Public: " + err.Error()
			}
		}
		verr := genplonk.Verify(p, g.vk, w)
		vec, _ := w.Vector().(fr.Vector)
		genuine := same(p) && len(vec) == len(g.pub[0])
		for i := range vec {
			genuine = genuine && i < len(g.pub[0]) && vec[i] == g.pub[0][i]
		}
		if (verr == nil) != genuine {
			return true, verr == nil, fmt.Sprintf("DISAGREE real=%v genuine=%v err=%v", verr == nil, genuine, verr)
		}
		return true, verr == nil, fmt.Sprint(verr)
	}
	u.relen = func(list string, n int) [][]byte {
		p := clonePlonk(orig)
		if list == "Bsb22Commitments" {
			_, _, g1, _ := curve.Generators()
			for len(p.Bsb22Commitments) < n {
				p.Bsb22Commitments = append(p.Bsb22Commitments, kzg.Digest(g1))
			}
			p.Bsb22Commitments = p.Bsb22Commitments[:n]
		} else {
			for len(p.BatchedProof.ClaimedValues) < n {
				p.BatchedProof.ClaimedValues = append(p.BatchedProof.ClaimedValues, fr.One())
			}
			p.BatchedProof.ClaimedValues = p.BatchedProof.ClaimedValues[:n]
		}
		return enc(p)
	}
	return u
}

func (u *untrusted) try(c *vh.Check, class, what string, pb, wb []byte, expectReject bool) {
	u.idx++
	if u.idx-1 < u.from {
		return
	}
	vh.WorkerAt(u.idx-1, class+" "+what)
	for _, via := range []bool{false, true} {
		var dec, acc bool
		var info string
		pan := vh.Recover(func() { dec, acc, info = u.verify(pb, wb, via) })
		c.Evals.Add(1)
		key := fmt.Sprintf("c08:%s:%s:%s:%s", CurveID, u.name, class, what)
		if pan != "" {
			c.Violation(key+":panic", map[string]any{"curve": CurveID.String(), "object": u.name, "class": class, "input": what, "via_Public()": via, "panic": pan, "proof_hex": fmt.Sprintf("%x", pb), "witness_hex": fmt.Sprintf("%x", wb)})
			c.Outcome("c08:" + class + ":panic")
			return
		}
		switch {
		case !dec:
			c.Outcome("c08:" + class + ":decode-error")
		case acc:
			c.Outcome("c08:" + class + ":accepted")
		default:
			c.Outcome("c08:" + class + ":rejected")
		}
		if len(info) > 8 && info[:8] == "DISAGREE" {
			c.Violation(key+":verdict", map[string]any{"curve": CurveID.String(), "object": u.name, "class": class, "input": what, "info": info})
		}
		if expectReject && dec && acc {
			c.Violation(key+":inconsistent-structure-accepted", map[string]any{"curve": CurveID.String(), "object": u.name, "class": class, "input": what, "via_Public()": via, "witness_hex": fmt.Sprintf("%x", wb)})
		}
		c.Traces.Add(1)
	}
}

func subst(quick bool) []func(b byte) byte {
	if quick {
		return []func(b byte) byte{func(b byte) byte { return b ^ 1 }, func(b byte) byte { return b ^ 0x80 }, func(b byte) byte {
			if b == 0 {
				return 0x40
			}
			return 0
		}, func(b byte) byte {
			if b == 0xff {
				return 0xbf
			}
			return 0xff
		}}
	}
	var out []func(b byte) byte
	for d := 1; d < 256; d++ {
		d := byte(d)
		out = append(out, func(b byte) byte { return b ^ d })
	}
	return out
}

// lengthFields locates the 4-byte list-length fields of encoding ei by diffing re-encodings.
func (u *untrusted) lengthFields(ei int) []int {
	var offs []int
	for _, list := range u.nameLists {
		base := -1
		for n := 0; n <= 10; n++ {
			if bytes.Equal(u.relen(list, n)[ei], u.proofBytes[ei]) {
				base = n
				break
			}
		}
		if base < 0 {
			continue
		}
		a, b := u.relen(list, base)[ei], u.relen(list, base+1)[ei]
		d := 0
		for d < len(a) && d < len(b) && a[d] == b[d] {
			d++
		}
		if off := d - 3; off >= 0 && off+4 <= len(a) && int(binary.BigEndian.Uint32(a[off:off+4])) == base {
			offs = append(offs, off)
		}
	}
	return offs
}

// hugeLength reports whether m carries a list length above 2^20 in one of the located fields:
// gnark-crypto's decoders allocate what the prefix claims (a resource question inside a
// dependency, excluded from the alphabet by DESIGN C08).
func hugeLength(m []byte, offs []int) bool {
	for _, o := range offs {
		if o+4 <= len(m) && binary.BigEndian.Uint32(m[o:o+4]) > 1<<20 {
			return true
		}
	}
	return false
}

func runUntrusted(c *vh.Check, u *untrusted) {
	quick := c.Quick()
	subs := subst(quick)
	// (i) prefixes and (ii) single-byte substitutions of the proof, both encodings
	for ei, pb := range u.proofBytes {
		en := []string{"WriteTo", "WriteRawTo"}[ei]
		for k := 0; k < len(pb); k++ {
			u.try(c, "proof-prefix", fmt.Sprintf("%s[:%d]", en, k), pb[:k], u.witBytes, false)
		}
		u.try(c, "proof-trailing", en+"+1byte", append(append([]byte(nil), pb...), 0x01), u.witBytes, false)
		lf := u.lengthFields(ei)
		if len(lf) != len(u.nameLists) {
			c.Fatal("could not locate every length field of %s", u.name)
		}
		stride := 1
		if quick && len(pb) > 600 {
			stride = 3 // quick: every 3rd position of long encodings (thorough: all)
		}
		for pos := 0; pos < len(pb); pos += stride {
			if c.Expired() {
				c.Cap("internal deadline in C08 byte substitutions")
				return
			}
			for si, f := range subs {
				m := append([]byte(nil), pb...)
				m[pos] = f(pb[pos])
				if hugeLength(m, lf) {
					c.Count("excluded", "huge-length-prefix", 1)
					continue
				}
				u.try(c, "proof-byte", fmt.Sprintf("%s[%d]sub%d", en, pos, si), m, u.witBytes, false)
			}
		}
	}
	// witness: prefixes and substitutions
	wb := u.witBytes
	for k := 0; k < len(wb); k++ {
		u.try(c, "witness-prefix", fmt.Sprintf("[:%d]", k), u.proofBytes[0], wb[:k], false)
	}
	for pos := 0; pos < len(wb); pos++ {
		for si, f := range subs {
			m := append([]byte(nil), wb...)
			m[pos] = f(wb[pos])
			if hugeLength(m, []int{8}) {
				c.Count("excluded", "huge-length-prefix", 1)
				continue
			}
			u.try(c, "witness-byte", fmt.Sprintf("[%d]sub%d", pos, si), u.proofBytes[0], m, false)
		}
	}
	// (iv) object level: every list at every length 0..n+2, re-encoded
	for _, list := range u.nameLists {
		base := -1
		for n := 0; n <= 10; n++ {
			encs := u.relen(list, n)
			if bytes.Equal(encs[0], u.proofBytes[0]) {
				base = n
			}
			if base >= 0 && n > base+2 {
				break
			}
			for ei, e := range encs {
				u.try(c, "list-length", fmt.Sprintf("%s=%d/enc%d", list, n, ei), e, u.witBytes, !bytes.Equal(e, u.proofBytes[ei]))
			}
		}
		// (iii) length field rewritten without touching the payload
		for ei := range u.proofBytes {
			n0 := base
			if n0 < 0 {
				continue
			}
			a, b := u.relen(list, n0)[ei], u.relen(list, n0+1)[ei]
			d := 0
			for d < len(a) && d < len(b) && a[d] == b[d] {
				d++
			}
			off := d - 3
			if off < 0 || off+4 > len(a) || int(binary.BigEndian.Uint32(a[off:off+4])) != n0 {
				c.Note(fmt.Sprintf("length field of %s not located in %s enc%d", list, u.name, ei))
				continue
			}
			for _, v := range []int{0, n0 - 1, n0 + 1, 2 * n0, 2*n0 + 1, 255, 65536} {
				if v < 0 || v == n0 {
					continue
				}
				m := append([]byte(nil), a...)
				binary.BigEndian.PutUint32(m[off:off+4], uint32(v))
				u.try(c, "length-field", fmt.Sprintf("%s:len=%d(payload %d)/enc%d", list, v, n0, ei), m, u.witBytes, true)
				// and with the payload of the longer encoding
				m2 := append([]byte(nil), b...)
				binary.BigEndian.PutUint32(m2[off:off+4], uint32(v))
				u.try(c, "length-field", fmt.Sprintf("%s:len=%d(payload %d)/enc%d", list, v, n0+1, ei), m2, u.witBytes, v != n0)
			}
		}
	}
	// (v) witness header (nbPublic, nbSecret, vector length) disagreeing with the payload
	if len(wb) >= 12 {
		np := int(binary.BigEndian.Uint32(wb[0:4]))
		nv := int(binary.BigEndian.Uint32(wb[8:12]))
		elem := 0
		if nv > 0 {
			elem = (len(wb) - 12) / nv
		}
		hdr := func(p, s, l int, payload []byte) []byte {
			m := make([]byte, 12, 12+len(payload))
			binary.BigEndian.PutUint32(m[0:4], uint32(p))
			binary.BigEndian.PutUint32(m[4:8], uint32(s))
			binary.BigEndian.PutUint32(m[8:12], uint32(l))
			return append(m, payload...)
		}
		payload := wb[12:]
		// 32-bit wrap-around: counts whose SUM is congruent to the vector length modulo 2^32
		wrap := [][2]int{{np + 1, 1<<32 - 1}, {np + 2, 1<<32 - 2}, {1<<32 - 1, nv + 1 - np}, {np, 1<<32 - np + nv - np}}
		for _, ps := range wrap {
			if ps[0] < 0 || ps[1] < 0 || ps[0] >= 1<<32 || ps[1] >= 1<<32 {
				continue
			}
			u.try(c, "witness-header-wrap", fmt.Sprintf("nbPublic=%d,nbSecret=%d,len=%d", ps[0], ps[1], nv), u.proofBytes[0], hdr(ps[0], ps[1], nv, payload), true)
		}
		for _, p := range []int{0, np - 1, np + 1, 2*np + 1, 1000} {
			for _, s := range []int{0, 1, 1000} {
				for _, l := range []int{nv, nv - 1, nv + 1, 0} {
					if p < 0 || l < 0 || (p == np && s == 0 && l == nv) {
						continue
					}
					pl := payload
					if l < nv {
						pl = payload[:l*elem]
					}
					if l > nv {
						pl = append(append([]byte(nil), payload...), make([]byte, (l-nv)*elem)...)
					}
					consistent := p+s == l
					// a public witness with the right number of public values is what the verifier needs;
					// everything else is structurally inconsistent with this key
					u.try(c, "witness-header", fmt.Sprintf("nbPublic=%d,nbSecret=%d,len=%d", p, s, l), u.proofBytes[0], hdr(p, s, l, pl), !consistent || l != nv)
				}
			}
		}
		// (v') pairs: one proof edit x one witness edit
		for _, list := range u.nameLists {
			for _, n := range []int{0, 1, 3} {
				e := u.relen(list, n)[0]
				for _, p := range []int{0, np + 1} {
					u.try(c, "pair", fmt.Sprintf("%s=%d x nbPublic=%d", list, n, p), e, hdr(p, 0, nv, payload), !bytes.Equal(e, u.proofBytes[0]) || p != np)
				}
				if len(wb) > 12 {
					u.try(c, "pair", fmt.Sprintf("%s=%d x witness-truncated", list, n), e, wb[:len(wb)-1], false)
				}
			}
			// COMPENSATING pairs: the list has k entries fewer (more) and a WELL-FORMED public witness has k
			// values more (fewer): the sum of the two prover-supplied counts still matches the key
			base := -1
			for n := 0; n <= 10; n++ {
				if bytes.Equal(u.relen(list, n)[0], u.proofBytes[0]) {
					base = n
					break
				}
			}
			for _, n := range []int{base - 2, base - 1, base + 1, base + 2} {
				k := base - n
				l := np + k
				if base < 0 || n < 0 || l < 0 {
					continue
				}
				es := elem
				if es == 0 {
					es = (CurveID.ScalarField().BitLen() + 7) / 8
				}
				pl := payload
				if l*es <= len(payload) {
					pl = payload[:l*es]
				} else {
					pl = append(append([]byte(nil), payload...), make([]byte, l*es-len(payload))...)
				}
				u.try(c, "pair", fmt.Sprintf("%s=%d x well-formed witness of %d values (compensating)", list, n, l), u.relen(list, n)[0], hdr(l, 0, l, pl), true)
			}
		}
	}
}

// RunC08 runs the untrusted-input check on this curve.  Coordinator: one isolated worker
// process per (case, backend) under an address-space limit, because gnark-crypto's decoders
// allocate whatever a length prefix claims; worker: runs its unit sequentially.
func RunC08(c *vh.Check, cases []bk.Case) {
	want := map[string]bool{"cubic-1pub": true, "two-pub": true, "commit-two": true, "zero-pub": true, "commit-public": true}
	if c.Quick() {
		want = map[string]bool{"cubic-1pub": true, "commit-two": true, "zero-pub": true}
	}
	var sel []bk.Case
	for _, cs := range cases {
		if want[cs.Name] {
			sel = append(sel, cs)
		}
	}
	if unit, from, ok := vh.WorkerArgs(); ok {
		parts := strings.Split(unit, ":")
		if parts[0] != CurveID.String() {
			return
		}
		for _, cse := range sel {
			if cse.Name != parts[1] {
				continue
			}
			var u *untrusted
			if parts[2] == "groth16" {
				g, err := buildG16(cse)
				if err != nil {
					c.Fatal("groth16 honest flow: %v", err)
				}
				u = g16Untrusted(g)
			} else {
				g, err := buildPlonk(cse)
				if err != nil {
					c.Fatal("plonk honest flow: %v", err)
				}
				u = plonkUntrusted(g)
			}
			u.from = from
			dec, acc, info := u.verify(u.proofBytes[0], u.witBytes, false)
			if !dec || !acc {
				c.Fatal("genuine proof rejected for %s: %s", u.name, info)
			}
			c.Outcome("c08:genuine:accepted")
			runUntrusted(c, u)
			if from == 0 {
				c.Sample(map[string]any{"curve": CurveID.String(), "object": u.name, "proof_bytes": []int{len(u.proofBytes[0]), len(u.proofBytes[1])}, "witness_bytes": len(u.witBytes), "inputs": u.idx})
			}
		}
		c.WorkerDone()
	}
	var units []string
	for _, cse := range sel {
		for _, b := range []string{"groth16", "plonk"} {
			units = append(units, CurveID.String()+":"+cse.Name+":"+b)
		}
	}
	vh.ParN(len(units), 8, func(i int) bool {
		c.RunIsolated(units[i], 6<<20, func(cr vh.Crash) {
			frames := vh.FirstFrames(cr.Stderr, 6)
			oom := strings.Contains(cr.Stderr, "out of memory") || strings.Contains(cr.Stderr, "cannot allocate memory")
			if oom && len(frames) > 0 && strings.Contains(frames[0], "gnark-crypto") {
				// the allocation is made by a gnark-crypto decoder from a length prefix: outside the alphabet
				c.Count("excluded", "allocation sized by a length prefix inside gnark-crypto decoder", 1)
				c.Outcome("c08:excluded:dependency-allocation")
				return
			}
			c.Violation(fmt.Sprintf("c08:%s:process-crash:%s", cr.Unit, cr.What), map[string]any{"unit": cr.Unit, "input_index": cr.Index, "input": cr.What, "frames": frames, "oom": oom})
		})
		return true
	})
}
