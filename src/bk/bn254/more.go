package bkbn254

import "github.com/consensys/gnark/internal/verifh/bk"

func registerMore(k *bk.Kit) {
	k.Run["c02"] = RunC02
	k.Run["c08"] = RunC08
	k.Run["c20"] = RunC20
}
