package bkbn254

import "github.com/consensys/gnark/internal/verifh/bk"

func registerMore(k *bk.Kit) {}
