// Package bkbn254 is the backend kit for one curve.  THIS FILE IS THE TEMPLATE: the kits of
// the other curves are derived from it by tools/gen_bk.sh (path substitution only).
package bkbn254

import (
	"bytes"
	"fmt"
	"hash"
	"math/big"
	"sync"

	"github.com/consensys/gnark-crypto/ecc"
	curve "github.com/consensys/gnark-crypto/ecc/bn254"
	"github.com/consensys/gnark-crypto/ecc/bn254/fr"
	"github.com/consensys/gnark-crypto/ecc/bn254/fr/hash_to_field"
	"github.com/consensys/gnark/backend"
	groth16 "github.com/consensys/gnark/backend/groth16/bn254"
	"github.com/consensys/gnark/backend/witness"
	"github.com/consensys/gnark/constraint"
	cs "github.com/consensys/gnark/constraint/bn254"
	"github.com/consensys/gnark/constraint/solver"
	"github.com/consensys/gnark/frontend"
	"github.com/consensys/gnark/frontend/cs/r1cs"
	"github.com/consensys/gnark/internal/verifh/bk"
	"github.com/consensys/gnark/internal/verifh/circ"
	"github.com/consensys/gnark/internal/verifh/refsolve"
	"github.com/consensys/gnark/internal/verifh/vh"
)

var CurveID = ecc.BN254

func init() {
	k := &bk.Kit{Curve: CurveID, Run: map[string]func(c *vh.Check, cases []bk.Case){}}
	k.Run["c01"] = RunC01
	registerMore(k)
	bk.Register(k)
}

// ---------------------------------------------------------------- building genuine objects

type g16Case struct {
	bk.Case
	cs           *cs.R1CS
	pk           *groth16.ProvingKey
	vk           *groth16.VerifyingKey
	full         [2]witness.Witness
	pub          [2]fr.Vector
	proof        [2]*groth16.Proof
}

func mkWitness(cse bk.Case, i int) (witness.Witness, fr.Vector) {
	w, err := frontend.NewWitness(circ.Assign(cse.Valid[i][0], cse.Valid[i][1]), CurveID.ScalarField())
	if err != nil {
		panic(err)
	}
	p, _ := w.Public()
	return w, append(fr.Vector(nil), p.Vector().(fr.Vector)...)
}

func buildG16(cse bk.Case) (*g16Case, error) {
	ccs, err := frontend.Compile(CurveID.ScalarField(), r1cs.NewBuilder, circ.New(cse.NP, cse.NS, cse.Def))
	if err != nil {
		return nil, err
	}
	g := &g16Case{Case: cse, cs: ccs.(*cs.R1CS), pk: new(groth16.ProvingKey), vk: new(groth16.VerifyingKey)}
	if err := groth16.Setup(g.cs, g.pk, g.vk); err != nil {
		return nil, fmt.Errorf("setup: %w", err)
	}
	for i := 0; i < 2; i++ {
		g.full[i], g.pub[i] = mkWitness(cse, i)
		g.proof[i], err = groth16.Prove(g.cs, g.pk, g.full[i])
		if err != nil {
			return nil, fmt.Errorf("prove: %w", err)
		}
	}
	return g, nil
}

// ---------------------------------------------------------------- textbook reference verifier

// refG16 is a Groth16 verifier written from the paper (plus the BSB22 commitment extension),
// strict about every length and every group membership.
func refG16(proof *groth16.Proof, vk *groth16.VerifyingKey, pub fr.Vector) bool {
	nCom := len(vk.PublicAndCommitmentCommitted)
	if len(vk.CommitmentKeys) != nCom || len(proof.Commitments) != nCom {
		return false
	}
	if len(pub) != len(vk.G1.K)-1-nCom {
		return false
	}
	if !proof.Ar.IsInSubGroup() || !proof.Krs.IsInSubGroup() || !proof.Bs.IsInSubGroup() {
		return false
	}
	for i := range proof.Commitments {
		if !proof.Commitments[i].IsInSubGroup() {
			return false
		}
	}
	x := append(fr.Vector(nil), pub...)
	var chal []byte
	for i := 0; i < nCom; i++ {
		h := hash_to_field.New([]byte(constraint.CommitmentDst))
		h.Write(proof.Commitments[i].Marshal())
		for _, j := range vk.PublicAndCommitmentCommitted[i] {
			if j-1 < 0 || j-1 >= len(x) {
				return false
			}
			h.Write(x[j-1].Marshal())
		}
		var e fr.Element
		e.SetBytes(h.Sum(nil)[:fr.Bytes])
		x = append(x, e)
		chal = append(chal, e.Marshal()...)
	}
	if nCom > 0 {
		if !proof.CommitmentPok.IsInSubGroup() {
			return false
		}
		r, err := fr.Hash(chal, []byte("G16-BSB22"), 1)
		if err != nil {
			return false
		}
		// prod_i e(r^i C_i, -sigma_i G) * e(pok, G) == 1
		var g1s []curve.G1Affine
		var g2s []curve.G2Affine
		var pw fr.Element
		pw.SetOne()
		for i := 0; i < nCom; i++ {
			if vk.CommitmentKeys[i].G != vk.CommitmentKeys[0].G {
				return false
			}
			var t curve.G1Affine
			var b big.Int
			t.ScalarMultiplication(&proof.Commitments[i], pw.BigInt(&b))
			g1s = append(g1s, t)
			g2s = append(g2s, vk.CommitmentKeys[i].GSigmaNeg)
			pw.Mul(&pw, &r[0])
		}
		g1s = append(g1s, proof.CommitmentPok)
		g2s = append(g2s, vk.CommitmentKeys[0].G)
		ok, err := curve.PairingCheck(g1s, g2s)
		if err != nil || !ok {
			return false
		}
	}
	// e(A,B) == e(alpha,beta) e(sum x_i K_i + sum C_i, gamma) e(C, delta)
	var acc curve.G1Jac
	acc.FromAffine(&vk.G1.K[0])
	for i := range x {
		var t curve.G1Affine
		var b big.Int
		t.ScalarMultiplication(&vk.G1.K[i+1], x[i].BigInt(&b))
		acc.AddMixed(&t)
	}
	for i := range proof.Commitments {
		acc.AddMixed(&proof.Commitments[i])
	}
	var k, negA curve.G1Affine
	k.FromJacobian(&acc)
	negA.Neg(&proof.Ar)
	ok, err := curve.PairingCheck(
		[]curve.G1Affine{negA, vk.G1.Alpha, k, proof.Krs},
		[]curve.G2Affine{proof.Bs, vk.G2.Beta, vk.G2.Gamma, vk.G2.Delta})
	return err == nil && ok
}

// ---------------------------------------------------------------- edit alphabet

type g16Edit struct {
	name   string
	proof  *groth16.Proof
	pub    fr.Vector
	valid  bool // true: a transformation that preserves validity (must be accepted)
	nedits int
}

func cloneProof(p *groth16.Proof) *groth16.Proof {
	q := *p
	q.Commitments = append([]curve.G1Affine(nil), p.Commitments...)
	return &q
}

// nonSubgroupG1 returns a curve point outside the prime-order subgroup (nil if cofactor 1).
// The curve coefficient is recovered from the generator (b = y^2 - x^3); x walks
// deterministically until x^3 + b is a square and the point is not in G1.
func nonSubgroupG1() *curve.G1Affine {
	_, _, g1, _ := curve.Generators()
	b := g1.Y
	b.Square(&b)
	x3 := g1.X
	x3.Square(&x3).Mul(&x3, &g1.X)
	b.Sub(&b, &x3)
	x := g1.X
	for i := 0; i < 400; i++ {
		x.Add(&x, &g1.Y)
		rhs := x
		rhs.Square(&rhs).Mul(&rhs, &x).Add(&rhs, &b)
		if rhs.Legendre() != 1 {
			continue
		}
		y := rhs
		y.Sqrt(&rhs)
		p := curve.G1Affine{X: x, Y: y}
		if p.IsOnCurve() && !p.IsInSubGroup() {
			return &p
		}
	}
	return nil
}

func nonSubgroupG2() *curve.G2Affine {
	_, _, _, g2 := curve.Generators()
	b := g2.Y
	b.Square(&b)
	x3 := g2.X
	x3.Square(&x3).Mul(&x3, &g2.X)
	b.Sub(&b, &x3)
	x := g2.X
	for i := 0; i < 400; i++ {
		x.Add(&x, &g2.Y)
		rhs := x
		rhs.Square(&rhs).Mul(&rhs, &x).Add(&rhs, &b)
		if rhs.Legendre() != 1 {
			continue
		}
		y := rhs
		y.Sqrt(&rhs)
		p := curve.G2Affine{X: x, Y: y}
		if p.IsOnCurve() && !p.IsInSubGroup() {
			return &p
		}
	}
	return nil
}

// torsionG1 returns a non-zero point of the cofactor subgroup ([r]N for a point N outside G1):
// adding it to a proof element leaves every pairing unchanged, so only an explicit subgroup
// check rejects the edited proof (nil when the cofactor is 1).
func torsionG1() *curve.G1Affine {
	n := nonSubgroupG1()
	if n == nil {
		return nil
	}
	var t curve.G1Affine
	t.ScalarMultiplication(n, fr.Modulus())
	if t.IsInfinity() {
		return nil
	}
	return &t
}

func torsionG2() *curve.G2Affine {
	n := nonSubgroupG2()
	if n == nil {
		return nil
	}
	var t curve.G2Affine
	t.ScalarMultiplication(n, fr.Modulus())
	if t.IsInfinity() {
		return nil
	}
	return &t
}

type namedG1 struct {
	n string
	p curve.G1Affine
}

func g1Alphabet(v curve.G1Affine, others []namedG1) []namedG1 {
	_, _, g1, _ := curve.Generators()
	var inf, neg, dbl, plus curve.G1Affine
	neg.Neg(&v)
	dbl.Double(&v)
	plus.Add(&v, &g1)
	out := []namedG1{{"inf", inf}, {"gen", g1}, {"neg", neg}, {"double", dbl}, {"plusG", plus}}
	if ns := nonSubgroupG1(); ns != nil {
		out = append(out, namedG1{"nonsubgroup", *ns})
	}
	if t := torsionG1(); t != nil {
		var pt curve.G1Affine
		pt.Add(&v, t)
		out = append(out, namedG1{"plusTorsion", pt})
	}
	out = append(out, others...)
	var res []namedG1
	for _, o := range out {
		if o.p != v {
			res = append(res, o)
		}
	}
	return res
}

// forging vector sum (x'_i - x_i) K_i: what an extra commitment would have to be to move a
// genuine proof from x to x'
func forgingVector(vk *groth16.VerifyingKey, x, x2 fr.Vector) curve.G1Affine {
	var acc curve.G1Jac
	for i := range x {
		if i >= len(x2) || i+1 >= len(vk.G1.K) {
			break
		}
		var d fr.Element
		d.Sub(&x[i], &x2[i]) // K-sum for x2 plus this = K-sum for x
		var t curve.G1Affine
		var b big.Int
		t.ScalarMultiplication(&vk.G1.K[i+1], d.BigInt(&b))
		acc.AddMixed(&t)
	}
	var r curve.G1Affine
	r.FromJacobian(&acc)
	return r
}

type pubEdit struct {
	n string
	v fr.Vector
}

func pubAlphabet(x, other fr.Vector) []pubEdit {
	var out []pubEdit
	one := fr.One()
	for i := range x {
		p := append(fr.Vector(nil), x...)
		p[i].Add(&p[i], &one)
		out = append(out, pubEdit{fmt.Sprintf("pub[%d]+1", i), p})
		m := append(fr.Vector(nil), x...)
		m[i].Sub(&m[i], &one)
		out = append(out, pubEdit{fmt.Sprintf("pub[%d]-1", i), m})
	}
	if len(x) >= 2 && x[0] != x[1] {
		s := append(fr.Vector(nil), x...)
		s[0], s[1] = s[1], s[0]
		out = append(out, pubEdit{"pub-swap", s})
	}
	if len(other) == len(x) && len(x) > 0 {
		out = append(out, pubEdit{"pub-of-b", append(fr.Vector(nil), other...)})
	}
	if len(x) > 0 {
		out = append(out, pubEdit{"pub-short", append(fr.Vector(nil), x[:len(x)-1]...)})
	}
	out = append(out, pubEdit{"pub-long", append(append(fr.Vector(nil), x...), one)})
	return out
}

func g16Edits(g *g16Case, thorough bool) []g16Edit {
	a, b := g.proof[0], g.proof[1]
	x, xb := g.pub[0], g.pub[1]
	var out []g16Edit
	add := func(name string, p *groth16.Proof, pub fr.Vector, valid bool, n int) {
		out = append(out, g16Edit{name, p, pub, valid, n})
	}
	add("identity", cloneProof(a), x, true, 0)
	// validity-preserving transformations (keep the accept side non-vacuous)
	{
		p := cloneProof(a)
		var two, half fr.Element
		two.SetUint64(2)
		half.Inverse(&two)
		var bi big.Int
		p.Ar.ScalarMultiplication(&a.Ar, two.BigInt(&bi))
		p.Bs.ScalarMultiplication(&a.Bs, half.BigInt(&bi))
		add("malleate(2A,B/2,C)", p, x, true, 1)
		q := cloneProof(a)
		var r fr.Element
		r.SetUint64(7)
		var t2 curve.G2Affine
		t2.ScalarMultiplication(&g.vk.G2.Delta, r.BigInt(&bi))
		q.Bs.Add(&a.Bs, &t2)
		var t1 curve.G1Affine
		t1.ScalarMultiplication(&a.Ar, r.BigInt(&bi))
		q.Krs.Add(&a.Krs, &t1)
		add("rerandomise(B+r.delta,C+r.A)", q, x, true, 1)
	}
	// slot edits
	type slot struct {
		name string
		get  func(p *groth16.Proof) *curve.G1Affine
	}
	slots := []slot{
		{"Ar", func(p *groth16.Proof) *curve.G1Affine { return &p.Ar }},
		{"Krs", func(p *groth16.Proof) *curve.G1Affine { return &p.Krs }},
		{"CommitmentPok", func(p *groth16.Proof) *curve.G1Affine { return &p.CommitmentPok }},
	}
	for i := range a.Commitments {
		i := i
		slots = append(slots, slot{fmt.Sprintf("Commitments[%d]", i), func(p *groth16.Proof) *curve.G1Affine { return &p.Commitments[i] }})
	}
	var slotEdits []g16Edit
	for _, s := range slots {
		if s.name == "CommitmentPok" && len(g.vk.CommitmentKeys) == 0 {
			continue // the protocol does not read it for a commitment-free key
		}
		cur := *s.get(a)
		others := []namedG1{{"of-b", *s.get(b)}}
		for _, s2 := range slots {
			if s2.name != s.name {
				others = append(others, namedG1{"slot:" + s2.name, *s2.get(a)})
			}
		}
		if len(g.vk.G1.K) > 1 {
			others = append(others, namedG1{"vk.K[1]", g.vk.G1.K[1]})
		}
		for _, e := range g1Alphabet(cur, others) {
			p := cloneProof(a)
			*s.get(p) = e.p
			ed := g16Edit{s.name + ":=" + e.n, p, x, false, 1}
			out = append(out, ed)
			slotEdits = append(slotEdits, ed)
		}
	}
	{ // G2 slot
		_, _, _, g2 := curve.Generators()
		var inf, neg, plus curve.G2Affine
		neg.Neg(&a.Bs)
		plus.Add(&a.Bs, &g2)
		alts := []struct {
			n string
			p curve.G2Affine
		}{{"inf", inf}, {"gen", g2}, {"neg", neg}, {"plusG", plus}, {"of-b", b.Bs}, {"vk.G2.Delta", g.vk.G2.Delta}}
		if ns := nonSubgroupG2(); ns != nil {
			alts = append(alts, struct {
				n string
				p curve.G2Affine
			}{"nonsubgroup", *ns})
		}
		if t := torsionG2(); t != nil {
			var pt curve.G2Affine
			pt.Add(&a.Bs, t)
			alts = append(alts, struct {
				n string
				p curve.G2Affine
			}{"plusTorsion", pt})
		}
		for _, e := range alts {
			if e.p == a.Bs {
				continue
			}
			p := cloneProof(a)
			p.Bs = e.p
			ed := g16Edit{"Bs:=" + e.n, p, x, false, 1}
			out = append(out, ed)
			slotEdits = append(slotEdits, ed)
		}
	}
	// list edits on Commitments
	_, _, g1, _ := curve.Generators()
	var listEdits []g16Edit
	le := func(name string, f func(p *groth16.Proof)) {
		p := cloneProof(a)
		f(p)
		ed := g16Edit{"Commitments:" + name, p, x, false, 1}
		out = append(out, ed)
		listEdits = append(listEdits, ed)
	}
	if len(a.Commitments) > 0 {
		le("drop-last", func(p *groth16.Proof) { p.Commitments = p.Commitments[:len(p.Commitments)-1] })
		le("dup-last", func(p *groth16.Proof) { p.Commitments = append(p.Commitments, p.Commitments[len(p.Commitments)-1]) })
	}
	if len(a.Commitments) > 1 {
		le("swap", func(p *groth16.Proof) { p.Commitments[0], p.Commitments[1] = p.Commitments[1], p.Commitments[0] })
	}
	le("append-inf", func(p *groth16.Proof) { p.Commitments = append(p.Commitments, curve.G1Affine{}) })
	le("append-gen", func(p *groth16.Proof) { p.Commitments = append(p.Commitments, g1) })
	// replay against other public inputs, alone and combined with the forging commitment
	pubs := pubAlphabet(x, xb)
	for _, pe := range pubs {
		add("replay:"+pe.n, cloneProof(a), pe.v, false, 1)
		if len(pe.v) == len(x) {
			f := forgingVector(g.vk, x, pe.v)
			p := cloneProof(a)
			p.Commitments = append(p.Commitments, f)
			add("replay:"+pe.n+"+append-forging-commitment", p, pe.v, false, 2)
			if len(a.Commitments) > 0 {
				q := cloneProof(a)
				q.Commitments[len(q.Commitments)-1].Add(&q.Commitments[len(q.Commitments)-1], &f)
				add("replay:"+pe.n+"+last-commitment+=forging", q, pe.v, false, 2)
			}
			k := cloneProof(a)
			k.Krs.Add(&k.Krs, &f)
			add("replay:"+pe.n+"+Krs+=forging", k, pe.v, false, 2)
		}
		// pairs: witness edit x list edit
		for _, l := range listEdits {
			add("replay:"+pe.n+"+"+l.name, cloneProof(l.proof), pe.v, false, 2)
		}
		if thorough {
			for _, s := range slotEdits {
				add("replay:"+pe.n+"+"+s.name, cloneProof(s.proof), pe.v, false, 2)
			}
		}
	}
	if thorough {
		// all pairs of slot edits on different slots
		for i := range slotEdits {
			for j := i + 1; j < len(slotEdits); j++ {
				si, sj := slotEdits[i], slotEdits[j]
				if si.name[:2] == sj.name[:2] {
					continue
				}
				p := cloneProof(si.proof)
				switch {
				case sj.name[:2] == "Ar":
					p.Ar = sj.proof.Ar
				case sj.name[:2] == "Kr":
					p.Krs = sj.proof.Krs
				case sj.name[:2] == "Bs":
					p.Bs = sj.proof.Bs
				default:
					continue
				}
				add(si.name+"+"+sj.name, p, x, false, 2)
			}
		}
	}
	// proof b offered for x, and proof a for b's inputs
	samePub := len(x) == len(xb)
	for i := range x {
		samePub = samePub && x[i] == xb[i]
	}
	add("proof-of-b", cloneProof(b), x, samePub, 1)
	return out
}

// offer presents one edited object to the real verifier three ways and to the reference.
func offerG16(c *vh.Check, g *g16Case, e g16Edit) {
	type way struct {
		name string
		enc  func(p *groth16.Proof, w *bytes.Buffer) error
	}
	ways := []way{{"memory", nil},
		{"WriteTo", func(p *groth16.Proof, w *bytes.Buffer) error { _, err := p.WriteTo(w); return err }},
		{"WriteRawTo", func(p *groth16.Proof, w *bytes.Buffer) error { _, err := p.WriteRawTo(w); return err }}}
	want := refG16(e.proof, g.vk, e.pub)
	c.Traces.Add(1)
	if e.valid && !want {
		c.Fatal("reference verifier rejects a validity-preserving transformation (%s/%s %s)", g.Name, CurveID, e.name)
	}
	if !e.valid && want {
		// a combination of edits the textbook verifier accepts is a validity-preserving
		// transformation (Groth16 proofs are malleable, e.g. (A,B,C) -> (-A,-B,C)); it must be a proof
		// for the SAME public inputs — anything else would be a forgery of the reference itself
		if len(e.pub) != len(g.pub[0]) {
			c.Fatal("reference verifier accepts a witness of another length (%s/%s %s)", g.Name, CurveID, e.name)
		}
		for i := range e.pub {
			if e.pub[i] != g.pub[0][i] {
				c.Violation(fmt.Sprintf("g16:%s:%s:reference-accepts-other-public-input:%s", CurveID, g.Name, e.name), map[string]any{"curve": CurveID.String(), "circuit": g.Name, "edit": e.name})
			}
		}
		c.Outcome("g16:malleated-but-valid")
	}
	for _, w := range ways {
		p := e.proof
		decodeErr := ""
		if w.enc != nil {
			var buf bytes.Buffer
			pan := vh.Recover(func() {
				if err := w.enc(e.proof, &buf); err != nil {
					decodeErr = "encode: " + err.Error()
					return
				}
				q := new(groth16.Proof)
				if _, err := q.ReadFrom(bytes.NewReader(buf.Bytes())); err != nil {
					decodeErr = "decode: " + err.Error()
					return
				}
				p = q
			})
			if pan != "" {
				c.Violation(fmt.Sprintf("g16:%s:%s:codec-panic:%s:%s", CurveID, g.Name, w.name, e.name), map[string]any{"panic": pan, "edit": e.name})
				continue
			}
		}
		accepted := false
		var verr error
		if decodeErr == "" {
			pan := vh.Recover(func() { verr = groth16.Verify(p, g.vk, append(fr.Vector(nil), e.pub...)) })
			if pan != "" {
				c.Violation(fmt.Sprintf("g16:%s:%s:verify-panic:%s:%s", CurveID, g.Name, w.name, e.name), map[string]any{"panic": pan, "edit": e.name, "way": w.name, "circuit": g.Name, "curve": CurveID.String()})
				continue
			}
			accepted = verr == nil
		}
		c.Evals.Add(1)
		cls := "reject"
		if accepted {
			cls = "accept"
		}
		if decodeErr != "" {
			cls = "decode-error"
		}
		c.Outcome(fmt.Sprintf("g16:%s:%s:%d-edits", w.name, cls, e.nedits))
		if accepted != want {
			c.Violation(fmt.Sprintf("g16:%s:%s:%s:%s:real=%v,ref=%v", CurveID, g.Name, w.name, e.name, accepted, want),
				map[string]any{"curve": CurveID.String(), "circuit": g.Name, "edit": e.name, "way": w.name, "real_accepts": accepted, "reference_accepts": want, "verify_error": fmt.Sprint(verr), "decode_error": decodeErr})
		}
	}
}

// ---------------------------------------------------------------- non-satisfying assignments via the post-solve hook

var solveEdit sync.Map // *cs.R1CS -> func(sol *cs.R1CSSolution)

func init() {
	prev := constraint.VerifPostSolveHook
	constraint.VerifPostSolveHook = func(sys any, values any, solution any) {
		if prev != nil {
			prev(sys, values, solution)
		}
		if f, ok := solveEdit.Load(sys); ok {
			if s, ok := solution.(*cs.R1CSSolution); ok {
				f.(func(*cs.R1CSSolution))(s)
			}
		}
	}
}

func badAssignments(c *vh.Check, g *g16Case) {
	nw := g.cs.GetNbPublicVariables() + g.cs.GetNbSecretVariables() + g.cs.GetNbInternalVariables()
	for wire := g.cs.GetNbPublicVariables(); wire < nw; wire++ {
		for _, mode := range []string{"+1", "=0"} {
			satisfied := true
			solveEdit.Store(g.cs, func(s *cs.R1CSSolution) {
				var one fr.Element
				one.SetOne()
				if mode == "+1" {
					s.W[wire].Add(&s.W[wire], &one)
				} else {
					if s.W[wire].IsZero() {
						s.W[wire].SetOne()
					} else {
						s.W[wire].SetZero()
					}
				}
				W := refsolve.VecToBig(s.W)
				a, b, cc, err := refsolve.EvalR1CS[constraint.U64](g.cs, W)
				satisfied = err == nil
				for i := range a {
					s.A[i].SetBigInt(a[i])
					s.B[i].SetBigInt(b[i])
					s.C[i].SetBigInt(cc[i])
				}
			})
			var proof *groth16.Proof
			var err error
			pan := vh.Recover(func() { proof, err = groth16.Prove(g.cs, g.pk, g.full[0], backend.WithSolverOptions(solver.WithNbTasks(1))) })
			solveEdit.Delete(g.cs)
			c.Evals.Add(1)
			if pan != "" || err != nil {
				c.Outcome("g16:badassign:prover-refused")
				continue
			}
			verr := groth16.Verify(proof, g.vk, append(fr.Vector(nil), g.pub[0]...))
			ref := refG16(proof, g.vk, g.pub[0])
			c.Outcome(fmt.Sprintf("g16:badassign:satisfied=%v:accepted=%v", satisfied, verr == nil))
			// with commitments a row-satisfying edit of a committed / commitment wire is still
			// inconsistent with the commitment the prover already computed: only the reject
			// direction is asserted there
			mustAccept := satisfied && g.NbCommit == 0
			if (!satisfied && (verr == nil || ref)) || (mustAccept && (verr != nil || !ref)) || (verr == nil) != ref {
				c.Violation(fmt.Sprintf("g16:%s:%s:badassign:wire%d%s:satisfied=%v,real=%v,ref=%v", CurveID, g.Name, wire, mode, satisfied, verr == nil, ref),
					map[string]any{"curve": CurveID.String(), "circuit": g.Name, "wire": wire, "mode": mode, "assignment_satisfies": satisfied, "real_accepts": verr == nil, "reference_accepts": ref})
			}
		}
	}
}

type g16RecHash struct {
	hash.Hash
	log *bytes.Buffer
}

func (r *g16RecHash) Write(p []byte) (int, error) {
	r.log.WriteByte('W')
	r.log.Write(p)
	return r.Hash.Write(p)
}
func (r *g16RecHash) Sum(b []byte) []byte { r.log.WriteByte('S'); return r.Hash.Sum(b) }
func (r *g16RecHash) Reset()              { r.log.WriteByte('R'); r.Hash.Reset() }

// g16HashCoverage: the commitment challenge (hash-to-field) must absorb every commitment and
// every public input the key says is committed — observed through the documented option
// backend.WithVerifierHashToFieldFunction.
func g16HashCoverage(c *vh.Check, g *g16Case) {
	if len(g.vk.PublicAndCommitmentCommitted) == 0 {
		return
	}
	stream := func(p *groth16.Proof, pub fr.Vector) string {
		r := &g16RecHash{Hash: hash_to_field.New([]byte(constraint.CommitmentDst)), log: new(bytes.Buffer)}
		vh.Recover(func() {
			_ = groth16.Verify(p, g.vk, append(fr.Vector(nil), pub...), backend.WithVerifierHashToFieldFunction(r))
		})
		return r.log.String()
	}
	a, x := g.proof[0], g.pub[0]
	base := stream(a, x)
	if len(base) == 0 {
		c.Fatal("groth16 verifier did not use the hash-to-field option (%s/%s)", CurveID, g.Name)
	}
	one := fr.One()
	for i, committed := range g.vk.PublicAndCommitmentCommitted {
		for _, j := range committed {
			if j-1 < 0 || j-1 >= len(x) {
				continue // a previous commitment's value, derived inside Verify
			}
			x2 := append(fr.Vector(nil), x...)
			x2[j-1].Add(&x2[j-1], &one)
			c.Evals.Add(1)
			if stream(a, x2) == base {
				c.Violation(fmt.Sprintf("g16:%s:%s:commitment-hash-does-not-bind:public[%d]", CurveID, g.Name, j-1), map[string]any{"curve": CurveID.String(), "circuit": g.Name, "commitment": i, "public_input": j - 1})
			} else {
				c.Outcome("g16:hash-binds:committed-public-input")
			}
		}
		p := cloneProof(a)
		_, _, g1, _ := curve.Generators()
		p.Commitments[i].Add(&p.Commitments[i], &g1)
		c.Evals.Add(1)
		if stream(p, x) == base {
			c.Violation(fmt.Sprintf("g16:%s:%s:commitment-hash-does-not-bind:Commitments[%d]", CurveID, g.Name, i), map[string]any{"curve": CurveID.String(), "circuit": g.Name, "commitment": i})
		} else {
			c.Outcome("g16:hash-binds:commitment")
		}
	}
}

// RunC01 runs the Groth16 verifier check on this curve.
// g16SetupStructure: the Pedersen keys of the BSB22 commitments.  Every proving key's sigma
// multiples must be consistent with ITS verifying key (e(sigma*B, G) e(B, -sigma*G) = 1) and with no
// other commitment's key: with a shared trapdoor a proof of knowledge for one commitment
// transfers to another one, and a prover can move committed wire values between commitments
// after the challenge is known.
func g16SetupStructure(c *vh.Check, g *g16Case) {
	vks, pks := g.vk.CommitmentKeys, g.pk.CommitmentKeys
	name := fmt.Sprintf("g16:%s:%s:setup", CurveID, g.Name)
	if len(vks) != g.NbCommit || len(pks) != g.NbCommit {
		c.Violation(name+":number-of-commitment-keys", map[string]any{"vk": len(vks), "pk": len(pks), "commitments": g.NbCommit})
		return
	}
	for i := range pks {
		if len(pks[i].Basis) != len(pks[i].BasisExpSigma) {
			c.Violation(fmt.Sprintf("%s:commitment-key[%d]:basis-lengths", name, i), nil)
			continue
		}
		if vks[i].G.IsInfinity() || vks[i].GSigmaNeg.IsInfinity() {
			c.Violation(fmt.Sprintf("%s:commitment-key[%d]:degenerate", name, i), nil)
			continue
		}
		for j := range pks[i].Basis {
			for k := range vks {
				ok, err := curve.PairingCheck([]curve.G1Affine{pks[i].BasisExpSigma[j], pks[i].Basis[j]}, []curve.G2Affine{vks[k].G, vks[k].GSigmaNeg})
				c.Evals.Add(1)
				switch {
				case err != nil:
					c.Violation(fmt.Sprintf("%s:commitment-key[%d]:pairing-error", name, i), map[string]any{"error": err.Error()})
				case k == i && !ok:
					c.Violation(fmt.Sprintf("%s:commitment-key[%d]:sigma-multiples-inconsistent-with-own-verifying-key", name, i), map[string]any{"basis_element": j})
				case k != i && ok && !pks[i].Basis[j].IsInfinity():
					c.Violation(fmt.Sprintf("%s:commitment-keys[%d,%d]:share-a-trapdoor", name, i, k), map[string]any{"basis_element": j,
						"note": "e(sigma_i*B, G_k) e(B, -sigma_k*G_k) = 1: a proof of knowledge made with key i verifies under key k; committed values can be moved between the two commitments after their challenges are known"})
				}
			}
		}
	}
	if g.NbCommit > 0 {
		c.Outcome("g16:setup:commitment-keys-consistent-and-independent")
	}
}

func RunC01(c *vh.Check, cases []bk.Case) {
	c.Par(len(cases), func(i int) {
		g, err := buildG16(cases[i])
		if err != nil {
			c.Violation(fmt.Sprintf("g16:%s:%s:honest-flow-failed", CurveID, cases[i].Name), map[string]any{"error": err.Error()})
			return
		}
		edits := g16Edits(g, c.Tier == "thorough")
		for _, e := range edits {
			if c.Expired() {
				c.Cap("internal deadline in C01 edits " + CurveID.String())
				return
			}
			offerG16(c, g, e)
		}
		c.Count("edits:"+CurveID.String(), g.Name, int64(len(edits)))
		badAssignments(c, g)
		g16HashCoverage(c, g)
		g16SetupStructure(c, g)
		if i == 0 {
			c.Sample(map[string]any{"curve": CurveID.String(), "circuit": g.Name, "edits": len(edits), "first_edits": []string{edits[1].name, edits[3].name, edits[len(edits)-2].name}})
		}
	})
}
