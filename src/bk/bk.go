// Package bk is the registry of per-curve backend kits.  The kit for bn254 (src/bk/bn254) is
// the hand-written template; tools/gen_bk.sh derives the six other curves by path
// substitution, exactly as gnark generates its own per-curve backends.
package bk

import (
	"math/big"
	"sort"

	"github.com/consensys/gnark-crypto/ecc"
	"github.com/consensys/gnark/frontend"
	"github.com/consensys/gnark/internal/verifh/vh"
)

// Case is one catalogue circuit with two distinct valid witnesses.
type Case struct {
	Name   string
	NP, NS int
	Def    func(api frontend.API, p, s []frontend.Variable) error
	// assignments: [2][]*big.Int{public, secret} for witnesses a and b, and optionally invalid ones
	Valid   [][2][]*big.Int
	Invalid [][2][]*big.Int
	NbCommit int
}

// Kit is what a per-curve package registers.
type Kit struct {
	Curve ecc.ID
	Run   map[string]func(c *vh.Check, cases []Case) // keyed by sub-check, e.g. "c01", "c02", "c08g", "c08p", "c20"
}

var Kits = map[ecc.ID]*Kit{}

func Register(k *Kit) { Kits[k.Curve] = k }

// Curves returns the curves to run: always all seven (the per-curve backends are separately
// generated files, a defect may sit in one of them only).
func Curves(quick bool) []ecc.ID {
	ids := make([]ecc.ID, 0, len(Kits))
	for id := range Kits {
		ids = append(ids, id)
	}
	sort.Slice(ids, func(i, j int) bool { return ids[i] < ids[j] })
	return ids
}

// CasesFor trims the catalogue in the quick tier: full on bn254, `n` representative circuits
// (no commitment, two commitments, no public input, ...) on the six other curves.
func CasesFor(id ecc.ID, quick bool, cases []Case, n int) []Case {
	if !quick || id == ecc.BN254 {
		return cases
	}
	pref := []string{"commit-three", "commit-two", "cubic-1pub", "zero-pub", "commit-public", "two-pub"}
	var out []Case
	for _, name := range pref {
		for _, c := range cases {
			if c.Name == name && len(out) < n {
				out = append(out, c)
			}
		}
	}
	return out
}

func Big(v ...int64) []*big.Int {
	out := make([]*big.Int, len(v))
	for i := range v {
		out[i] = big.NewInt(v[i])
	}
	return out
}
