#!/bin/bash
# Offline setup: build the instrumenter and warm the Go build cache by building every check once.
. /verif/env.sh
mkdir -p /verif/bin /verif/.work /verif/evidence /verif/replays
( cd /verif/tools/goinstr && go build -o /verif/bin/goinstr . ) || exit 1
( cd /verif/tools/maprange && go build -o /verif/bin/maprange . ) || exit 1
/verif/tools/gen_bk.sh || exit 1
for d in /verif/src/cmd/*/; do
  n=$(basename $d)
  ov=/verif/.work/overlay-$n.json
  frags=""
  cfg=$d/instr.json
  if [ -x $d/geninstr.sh ]; then
    mkdir -p /verif/.work/instr/$n
    cfg=/verif/.work/instr/$n/instr.json
    $d/geninstr.sh $cfg || exit 1
  fi
  if [ -f $cfg ]; then
    mkdir -p /verif/.work/instr/$n
    /verif/bin/goinstr -repo /repo -out /verif/.work/instr/$n -config $cfg > /verif/.work/instr/$n/goinstr.log || exit 1
    frags=/verif/.work/instr/$n
  fi
  VERIF_OVERLAY_FRAGS=$frags python3 /verif/tools/mkoverlay.py $ov || exit 1
  ( cd /repo && go build -tags verif -overlay $ov -o /verif/bin/$n ./internal/verifh/cmd/$n ) || exit 1
done
echo setup done
