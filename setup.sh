#!/bin/bash
# Offline setup: warm the Go build cache by building every check binary once.
. /verif/env.sh
mkdir -p /verif/bin /verif/.work /verif/evidence /verif/replays
/verif/tools/gen_bk.sh || exit 1
python3 /verif/tools/mkoverlay.py /verif/.work/overlay.json || exit 1
cd /repo || exit 1
for d in /verif/src/cmd/*/; do
  n=$(basename $d)
  [ -x $d/prebuild.sh ] && $d/prebuild.sh quick
  go build -tags verif -overlay /verif/.work/overlay.json -o /verif/bin/$n ./internal/verifh/cmd/$n || exit 1
done
echo setup done
