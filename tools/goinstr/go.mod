module verif.local/goinstr

go 1.23
