// goinstr: source-to-source instrumenter.  Reads files of the CURRENT /repo tree and writes
// copies in which every concurrency construct is preceded by / replaced with a call into the
// controlled scheduler (vsched), plus a `go build -overlay` fragment.  /repo is never written.
// Purely syntactic (go/ast); channel-typed names are collected from declarations in the file.
package main

import (
	"bytes"
	"encoding/json"
	"flag"
	"fmt"
	"go/ast"
	"go/format"
	"go/parser"
	"go/token"
	"os"
	"path/filepath"
	"strconv"
	"strings"
)

type fileCfg struct {
	Path   string   `json:"path"`   // relative to repo
	Points []string `json:"points"` // functions that get a scheduling point before every statement ("*" = all)
	// LitPoints: functions whose FUNCTION LITERALS (goroutine bodies, closures) get a scheduling point
	// before every statement, while the function's own body does not (e.g. the worker closure of a pool)
	LitPoints []string `json:"lit_points"`
	Fail   bool     `json:"fail"`   // insert MaybeFail after `…, err := f()` followed by `if err != nil`
	MapLines []int  `json:"maplines"` // lines of `range` statements over maps (from the typed scan)
}

type config struct {
	Files []fileCfg `json:"files"`
}

const (
	pVsched   = "github.com/consensys/gnark/internal/verifh/vsched"
	pVsync    = "github.com/consensys/gnark/internal/verifh/vsync"
	pErrgroup = "github.com/consensys/gnark/internal/verifh/verrgroup"
	pVchoice  = "github.com/consensys/gnark/internal/verifh/vchoice"
)

func main() {
	repo := flag.String("repo", "/repo", "")
	out := flag.String("out", "", "output dir")
	cfgPath := flag.String("config", "", "")
	flag.Parse()
	b, err := os.ReadFile(*cfgPath)
	check(err)
	var cfg config
	check(json.Unmarshal(b, &cfg))
	check(os.MkdirAll(*out, 0o755))
	replace := map[string]string{}
	for _, fc := range cfg.Files {
		src := filepath.Join(*repo, fc.Path)
		dst := filepath.Join(*out, strings.ReplaceAll(fc.Path, "/", "__"))
		res, stats, err := instrument(src, fc)
		if err != nil {
			fmt.Fprintf(os.Stderr, "goinstr: %s: %v\n", fc.Path, err)
			os.Exit(1)
		}
		old, _ := os.ReadFile(dst)
		if !bytes.Equal(old, res) {
			check(os.WriteFile(dst, res, 0o644))
		}
		replace[src] = dst
		fmt.Printf("goinstr %s: %s\n", fc.Path, stats)
	}
	j, _ := json.MarshalIndent(map[string]any{"Replace": replace}, "", " ")
	check(os.WriteFile(filepath.Join(*out, "overlay.json"), j, 0o644))
}

func check(err error) {
	if err != nil {
		fmt.Fprintln(os.Stderr, "goinstr:", err)
		os.Exit(1)
	}
}

type rewriter struct {
	fset      *token.FileSet
	cfg       fileCfg
	chans     map[string]bool
	base      string
	n         map[string]int
	tmp       int
	useVsched bool
	useVchoice bool
	mapLines  map[int]bool
	litPts    map[string]bool
	curFunc   string
}

func (r *rewriter) count(k string) { r.n[k]++ }

func sel(pkg, name string) ast.Expr { return &ast.SelectorExpr{X: ast.NewIdent(pkg), Sel: ast.NewIdent(name)} }

func (r *rewriter) call(name string, args ...ast.Expr) *ast.CallExpr {
	r.useVsched = true
	return &ast.CallExpr{Fun: sel("vsched", name), Args: args}
}

func lastName(e ast.Expr) string {
	switch x := e.(type) {
	case *ast.Ident:
		return x.Name
	case *ast.SelectorExpr:
		return x.Sel.Name
	case *ast.ParenExpr:
		return lastName(x.X)
	}
	return ""
}

func isMakeChan(e ast.Expr) bool {
	c, ok := e.(*ast.CallExpr)
	if !ok || len(c.Args) == 0 {
		return false
	}
	if id, ok := c.Fun.(*ast.Ident); !ok || id.Name != "make" {
		return false
	}
	_, ok = c.Args[0].(*ast.ChanType)
	return ok
}

func (r *rewriter) collectChans(f *ast.File) {
	ast.Inspect(f, func(n ast.Node) bool {
		switch x := n.(type) {
		case *ast.AssignStmt:
			if len(x.Lhs) == len(x.Rhs) {
				for i := range x.Rhs {
					if isMakeChan(x.Rhs[i]) {
						r.chans[lastName(x.Lhs[i])] = true
					}
				}
			}
		case *ast.ValueSpec:
			if _, ok := x.Type.(*ast.ChanType); ok {
				for _, n := range x.Names {
					r.chans[n.Name] = true
				}
			}
			for i, v := range x.Values {
				if isMakeChan(v) && i < len(x.Names) {
					r.chans[x.Names[i].Name] = true
				}
			}
		case *ast.Field:
			if _, ok := x.Type.(*ast.ChanType); ok {
				for _, n := range x.Names {
					r.chans[n.Name] = true
				}
			}
		case *ast.KeyValueExpr:
			if isMakeChan(x.Value) {
				r.chans[lastName(x.Key)] = true
			}
		}
		return true
	})
}

// expr rewrites channel receives and close() inside an expression tree.
func (r *rewriter) expr(e ast.Expr) ast.Expr {
	if e == nil {
		return nil
	}
	switch x := e.(type) {
	case *ast.UnaryExpr:
		x.X = r.expr(x.X)
		if x.Op == token.ARROW {
			r.count("recv")
			return r.call("Recv", x.X)
		}
		return x
	case *ast.CallExpr:
		x.Fun = r.expr(x.Fun)
		for i := range x.Args {
			x.Args[i] = r.expr(x.Args[i])
		}
		if id, ok := x.Fun.(*ast.Ident); ok && id.Name == "close" && len(x.Args) == 1 {
			r.count("close")
			return r.call("Close", x.Args[0])
		}
		return x
	case *ast.FuncLit:
		r.block(x.Body, r.litPts[r.curFunc])
		return x
	case *ast.BinaryExpr:
		x.X, x.Y = r.expr(x.X), r.expr(x.Y)
	case *ast.ParenExpr:
		x.X = r.expr(x.X)
	case *ast.SelectorExpr:
		x.X = r.expr(x.X)
	case *ast.IndexExpr:
		x.X, x.Index = r.expr(x.X), r.expr(x.Index)
	case *ast.SliceExpr:
		x.X, x.Low, x.High, x.Max = r.expr(x.X), r.expr(x.Low), r.expr(x.High), r.expr(x.Max)
	case *ast.StarExpr:
		x.X = r.expr(x.X)
	case *ast.TypeAssertExpr:
		x.X = r.expr(x.X)
	case *ast.CompositeLit:
		for i := range x.Elts {
			x.Elts[i] = r.expr(x.Elts[i])
		}
	case *ast.KeyValueExpr:
		x.Value = r.expr(x.Value)
	}
	return e
}

func (r *rewriter) exprs(l []ast.Expr) {
	for i := range l {
		l[i] = r.expr(l[i])
	}
}

func (r *rewriter) site(n ast.Node) string {
	p := r.fset.Position(n.Pos())
	return r.base + ":" + strconv.Itoa(p.Line)
}

func strLit(s string) ast.Expr { return &ast.BasicLit{Kind: token.STRING, Value: strconv.Quote(s)} }

// block rewrites a statement list in place; points: insert a scheduling point before every statement.
func (r *rewriter) block(b *ast.BlockStmt, points bool) {
	if b == nil {
		return
	}
	b.List = r.stmts(b.List, points)
}

func (r *rewriter) stmts(list []ast.Stmt, points bool) []ast.Stmt {
	var out []ast.Stmt
	for i, s := range list {
		if points {
			switch s.(type) {
			case *ast.DeclStmt, *ast.EmptyStmt, *ast.LabeledStmt:
			default:
				out = append(out, &ast.ExprStmt{X: r.call("Point", strLit("acc:"+r.site(s)))})
				r.count("point")
			}
		}
		ns := r.stmt(s, points)
		out = append(out, ns...)
		// failure injection: `..., err := f(...)` directly followed by `if err != nil`
		if r.cfg.Fail && i+1 < len(list) {
			if as, ok := s.(*ast.AssignStmt); ok && len(as.Lhs) > 0 && lastName(as.Lhs[len(as.Lhs)-1]) == "err" && len(as.Rhs) == 1 {
				if _, isCall := as.Rhs[0].(*ast.CallExpr); isCall {
					if ifs, ok := list[i+1].(*ast.IfStmt); ok && ifs.Init == nil && isErrNotNil(ifs.Cond) {
						out = append(out, &ast.ExprStmt{X: r.call("MaybeFail", strLit(r.site(s)), &ast.UnaryExpr{Op: token.AND, X: ast.NewIdent("err")})})
						r.count("maybefail")
					}
				}
			}
		}
	}
	return out
}

func isErrNotNil(e ast.Expr) bool {
	b, ok := e.(*ast.BinaryExpr)
	if !ok || b.Op != token.NEQ {
		return false
	}
	x, ok1 := b.X.(*ast.Ident)
	y, ok2 := b.Y.(*ast.Ident)
	return ok1 && ok2 && x.Name == "err" && y.Name == "nil"
}

func (r *rewriter) stmt(s ast.Stmt, points bool) []ast.Stmt {
	switch x := s.(type) {
	case *ast.GoStmt:
		r.count("go")
		call := x.Call
		call.Fun = r.expr(call.Fun)
		var pre []ast.Stmt
		for i, a := range call.Args {
			a = r.expr(a)
			r.tmp++
			name := fmt.Sprintf("__goarg%d", r.tmp)
			pre = append(pre, &ast.AssignStmt{Lhs: []ast.Expr{ast.NewIdent(name)}, Tok: token.DEFINE, Rhs: []ast.Expr{a}})
			call.Args[i] = ast.NewIdent(name)
		}
		var fn ast.Expr
		if fl, ok := call.Fun.(*ast.FuncLit); ok && len(call.Args) == 0 && fl.Type.Results == nil {
			fn = fl
		} else {
			fn = &ast.FuncLit{Type: &ast.FuncType{Params: &ast.FieldList{}}, Body: &ast.BlockStmt{List: []ast.Stmt{&ast.ExprStmt{X: call}}}}
		}
		g := &ast.ExprStmt{X: r.call("Go", fn)}
		if len(pre) == 0 {
			return []ast.Stmt{g}
		}
		return []ast.Stmt{&ast.BlockStmt{List: append(pre, g)}}
	case *ast.SendStmt:
		r.count("send")
		return []ast.Stmt{&ast.ExprStmt{X: r.call("Send", r.expr(x.Chan), r.expr(x.Value))}}
	case *ast.ExprStmt:
		x.X = r.expr(x.X)
	case *ast.AssignStmt:
		if len(x.Lhs) == 2 && len(x.Rhs) == 1 {
			if u, ok := x.Rhs[0].(*ast.UnaryExpr); ok && u.Op == token.ARROW {
				r.count("recv")
				x.Rhs[0] = r.call("Recv2", r.expr(u.X))
				r.exprs(x.Lhs)
				return []ast.Stmt{x}
			}
		}
		r.exprs(x.Lhs)
		r.exprs(x.Rhs)
	case *ast.DeclStmt:
		if gd, ok := x.Decl.(*ast.GenDecl); ok {
			for _, sp := range gd.Specs {
				if vs, ok := sp.(*ast.ValueSpec); ok {
					r.exprs(vs.Values)
				}
			}
		}
	case *ast.ReturnStmt:
		r.exprs(x.Results)
	case *ast.IncDecStmt:
		x.X = r.expr(x.X)
	case *ast.DeferStmt:
		x.Call = r.expr(x.Call).(*ast.CallExpr)
	case *ast.BlockStmt:
		r.block(x, points)
	case *ast.IfStmt:
		if x.Init != nil {
			x.Init = r.stmt(x.Init, false)[0]
		}
		x.Cond = r.expr(x.Cond)
		r.block(x.Body, points)
		if x.Else != nil {
			x.Else = r.stmt(x.Else, points)[0]
		}
	case *ast.ForStmt:
		if x.Init != nil {
			x.Init = r.stmt(x.Init, false)[0]
		}
		x.Cond = r.expr(x.Cond)
		if x.Post != nil {
			x.Post = r.stmt(x.Post, false)[0]
		}
		r.block(x.Body, points)
	case *ast.RangeStmt:
		x.X = r.expr(x.X)
		r.block(x.Body, points)
		if r.mapLines[r.fset.Position(x.Pos()).Line] {
			if x.Tok != token.DEFINE {
				panic("goinstr: map range with '=' not supported at " + r.site(x))
			}
			r.count("maprange")
			r.useVchoice = true
			r.tmp++
			keyVar := ast.Expr(ast.NewIdent(fmt.Sprintf("__mk%d", r.tmp)))
			if id, ok := x.Key.(*ast.Ident); ok && id.Name != "_" {
				keyVar = id
			}
			var val ast.Expr = ast.NewIdent("_")
			if x.Value != nil {
				val = x.Value
			}
			okv := ast.NewIdent(fmt.Sprintf("__mok%d", r.tmp))
			fetch := &ast.AssignStmt{Lhs: []ast.Expr{val, okv}, Tok: token.DEFINE, Rhs: []ast.Expr{&ast.IndexExpr{X: x.X, Index: keyVar}}}
			skip := &ast.IfStmt{Cond: &ast.UnaryExpr{Op: token.NOT, X: okv}, Body: &ast.BlockStmt{List: []ast.Stmt{&ast.BranchStmt{Tok: token.CONTINUE}}}}
			body := append([]ast.Stmt{fetch, skip}, x.Body.List...)
			keys := &ast.CallExpr{Fun: sel("vchoice", "MapKeys"), Args: []ast.Expr{x.X, strLit(r.site(x))}}
			return []ast.Stmt{&ast.RangeStmt{Key: ast.NewIdent("_"), Value: keyVar, Tok: token.DEFINE, X: keys, Body: &ast.BlockStmt{List: body}}}
		}
		if r.chans[lastName(x.X)] && x.Value == nil {
			r.count("rangechan")
			key := ast.Expr(ast.NewIdent("_"))
			if x.Key != nil {
				key = x.Key
			}
			ok := ast.NewIdent("__ok")
			var recv ast.Stmt
			if x.Tok == token.ASSIGN {
				recv = &ast.BlockStmt{List: []ast.Stmt{
					&ast.DeclStmt{Decl: &ast.GenDecl{Tok: token.VAR, Specs: []ast.Spec{&ast.ValueSpec{Names: []*ast.Ident{ok}, Type: ast.NewIdent("bool")}}}},
				}}
				_ = recv
				panic("goinstr: `for k = range ch` not supported")
			}
			recv = &ast.AssignStmt{Lhs: []ast.Expr{key, ok}, Tok: token.DEFINE, Rhs: []ast.Expr{r.call("Recv2", x.X)}}
			brk := &ast.IfStmt{Cond: &ast.UnaryExpr{Op: token.NOT, X: ok}, Body: &ast.BlockStmt{List: []ast.Stmt{&ast.BranchStmt{Tok: token.BREAK}}}}
			body := append([]ast.Stmt{recv, brk}, x.Body.List...)
			return []ast.Stmt{&ast.ForStmt{Body: &ast.BlockStmt{List: body}}}
		}
	case *ast.SwitchStmt:
		if x.Init != nil {
			x.Init = r.stmt(x.Init, false)[0]
		}
		x.Tag = r.expr(x.Tag)
		for _, c := range x.Body.List {
			cc := c.(*ast.CaseClause)
			r.exprs(cc.List)
			cc.Body = r.stmts(cc.Body, points)
		}
	case *ast.TypeSwitchStmt:
		for _, c := range x.Body.List {
			cc := c.(*ast.CaseClause)
			cc.Body = r.stmts(cc.Body, points)
		}
	case *ast.LabeledStmt:
		if sel, ok := x.Stmt.(*ast.SelectStmt); ok {
			return []ast.Stmt{r.selectStmt(sel, points, x.Label)}
		}
		ns := r.stmt(x.Stmt, points)
		x.Stmt = ns[0]
		return append([]ast.Stmt{x}, ns[1:]...)
	case *ast.SelectStmt:
		return []ast.Stmt{r.selectStmt(x, points, nil)}
	}
	return []ast.Stmt{s}
}

// selectStmt rewrites `select` into a block: typed case holders, then a switch on vsched.Select
// (which performs the chosen communication itself); received values are read from the holders.
func (r *rewriter) selectStmt(x *ast.SelectStmt, points bool, label *ast.Ident) ast.Stmt {
	r.count("select")
	r.tmp++
	id := r.tmp
	hasDefault := false
	var pre []ast.Stmt
	var holders []ast.Expr
	sw := &ast.SwitchStmt{Body: &ast.BlockStmt{}}
	idx := 0
	for _, c := range x.Body.List {
		cc := c.(*ast.CommClause)
		body := r.stmts(cc.Body, points)
		if cc.Comm == nil {
			hasDefault = true
			sw.Body.List = append(sw.Body.List, &ast.CaseClause{Body: body})
			continue
		}
		h := ast.NewIdent(fmt.Sprintf("__sel%d_%d", id, idx))
		var first []ast.Stmt
		switch cm := cc.Comm.(type) {
		case *ast.SendStmt:
			pre = append(pre, &ast.AssignStmt{Lhs: []ast.Expr{h}, Tok: token.DEFINE, Rhs: []ast.Expr{r.call("SendCase", r.expr(cm.Chan), r.expr(cm.Value))}})
		case *ast.ExprStmt:
			pre = append(pre, &ast.AssignStmt{Lhs: []ast.Expr{h}, Tok: token.DEFINE, Rhs: []ast.Expr{r.call("RecvCase", r.expr(cm.X.(*ast.UnaryExpr).X))}})
		case *ast.AssignStmt:
			pre = append(pre, &ast.AssignStmt{Lhs: []ast.Expr{h}, Tok: token.DEFINE, Rhs: []ast.Expr{r.call("RecvCase", r.expr(cm.Rhs[0].(*ast.UnaryExpr).X))}})
			rhs := []ast.Expr{&ast.SelectorExpr{X: h, Sel: ast.NewIdent("V")}}
			if len(cm.Lhs) == 2 {
				rhs = append(rhs, &ast.SelectorExpr{X: h, Sel: ast.NewIdent("OK")})
			}
			first = append(first, &ast.AssignStmt{Lhs: cm.Lhs, Tok: cm.Tok, Rhs: rhs})
			// silence "declared and not used" for received values that the body ignores
			if cm.Tok == token.DEFINE {
				for _, l := range cm.Lhs {
					if id, ok := l.(*ast.Ident); ok && id.Name != "_" {
						first = append(first, &ast.AssignStmt{Lhs: []ast.Expr{ast.NewIdent("_")}, Tok: token.ASSIGN, Rhs: []ast.Expr{ast.NewIdent(id.Name)}})
					}
				}
			}
		}
		holders = append(holders, h)
		sw.Body.List = append(sw.Body.List, &ast.CaseClause{List: []ast.Expr{&ast.BasicLit{Kind: token.INT, Value: strconv.Itoa(idx)}}, Body: append(first, body...)})
		idx++
	}
	hd := "false"
	if hasDefault {
		hd = "true"
	}
	sw.Tag = r.call("Select", append([]ast.Expr{ast.NewIdent(hd)}, holders...)...)
	var swStmt ast.Stmt = sw
	if label != nil {
		swStmt = &ast.LabeledStmt{Label: label, Stmt: sw}
	}
	return &ast.BlockStmt{List: append(pre, swStmt)}
}

func instrument(path string, fc fileCfg) ([]byte, string, error) {
	fset := token.NewFileSet()
	f, err := parser.ParseFile(fset, path, nil, parser.ParseComments)
	if err != nil {
		return nil, "", err
	}
	r := &rewriter{fset: fset, cfg: fc, chans: map[string]bool{}, base: filepath.Base(path), n: map[string]int{}, mapLines: map[int]bool{}}
	for _, l := range fc.MapLines {
		r.mapLines[l] = true
	}
	r.collectChans(f)
	// drop comments attached inside rewritten bodies would be misplaced: keep only doc comments
	f.Comments = nil
	pts := map[string]bool{}
	for _, p := range fc.Points {
		pts[p] = true
	}
	r.litPts = map[string]bool{}
	for _, p := range fc.LitPoints {
		r.litPts[p] = true
	}
	for _, d := range f.Decls {
		fd, ok := d.(*ast.FuncDecl)
		if !ok || fd.Body == nil {
			continue
		}
		r.curFunc = fd.Name.Name
		r.block(fd.Body, pts["*"] || pts[fd.Name.Name])
	}
	// imports
	for _, im := range f.Imports {
		p, _ := strconv.Unquote(im.Path.Value)
		switch p {
		case "sync":
			im.Path.Value = strconv.Quote(pVsync)
			im.Name = ast.NewIdent("sync")
			r.count("import-sync")
		case "golang.org/x/sync/errgroup":
			im.Path.Value = strconv.Quote(pErrgroup)
			im.Name = ast.NewIdent("errgroup")
			r.count("import-errgroup")
		}
	}
	var extra []string
	if r.useVsched {
		extra = append(extra, pVsched)
	}
	if r.useVchoice {
		extra = append(extra, pVchoice)
	}
	for _, ip := range extra {
		spec := &ast.ImportSpec{Path: &ast.BasicLit{Kind: token.STRING, Value: strconv.Quote(ip)}}
		added := false
		for _, d := range f.Decls {
			if gd, ok := d.(*ast.GenDecl); ok && gd.Tok == token.IMPORT {
				gd.Specs = append(gd.Specs, spec)
				if !gd.Lparen.IsValid() {
					gd.Lparen = gd.Pos()
				}
				added = true
				break
			}
		}
		if !added {
			f.Decls = append([]ast.Decl{&ast.GenDecl{Tok: token.IMPORT, Specs: []ast.Spec{spec}}}, f.Decls...)
		}
	}
	var buf bytes.Buffer
	if err := format.Node(&buf, fset, f); err != nil {
		return nil, "", err
	}
	// build tags and the generated-code header were comments: re-add the build constraint if any
	src, _ := os.ReadFile(path)
	hdr := ""
	for _, l := range strings.Split(string(src), "\n") {
		if strings.HasPrefix(l, "//go:build") {
			hdr = l + "\n\n"
		}
		if strings.HasPrefix(l, "package ") {
			break
		}
	}
	var keys []string
	for k, v := range r.n {
		keys = append(keys, fmt.Sprintf("%s=%d", k, v))
	}
	return append([]byte(hdr+"// Code instrumented by /verif/tools/goinstr from "+path+"; DO NOT EDIT\n\n"), buf.Bytes()...), strings.Join(keys, " "), nil
}
