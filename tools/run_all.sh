#!/bin/bash
# run_all.sh [tier] — run every check claimed in MANIFEST.json sequentially; one summary line each.
tier=${1:-quick}
for id in $(python3 -c "import json;print(' '.join(c['property_id'] for c in json.load(open('/verif/MANIFEST.json'))['checks']))"); do
  s=$(date +%s)
  out=$(/verif/vcheck $id $tier 2>&1); rc=$?
  e=$(( $(date +%s) - s ))
  line=$(echo "$out" | grep "^$id tier=" | tail -1 | cut -c1-160)
  nk=$(echo "$out" | grep -c "^KNOWN-FINDING")
  nv=$(echo "$out" | grep -c "^VIOLATION")
  nc=$(echo "$out" | grep -c "^CAP")
  echo "$id exit=$rc total=${e}s known=$nk viol=$nv caps=$nc | $line"
  [ $rc -ne 0 ] && echo "$out" | grep -m5 "key:\|HARNESS-ERROR" 
done
