#!/bin/bash
# AUXILIARY (never deciding): free-running -race pass of the C10 scenario bodies on the
# un-instrumented current tree; summary written to /verif/findings/C10.race.json
. /verif/env.sh
/verif/tools/gen_bk.sh; python3 /verif/tools/mkoverlay.py /verif/.work/overlay-race.json || exit 3
( cd /repo && go build -race -tags verif -overlay /verif/.work/overlay-race.json -o /verif/bin/c10race ./internal/verifh/cmd/c10race ) || exit 3
rm -f /verif/.work/race.log.*
GORACE="log_path=/verif/.work/race.log halt_on_error=0 exitcode=0" timeout 1200 /verif/bin/c10race > /verif/.work/race.out 2>&1
python3 - <<'PY'
import glob,json,re,collections
txt=''.join(open(f).read() for f in glob.glob('/verif/.work/race.log.*'))
blocks=txt.split('WARNING: DATA RACE')[1:]
sites=collections.Counter()
for b in blocks:
    fr=[l.strip() for l in b.splitlines() if l.strip().startswith('/') and '/usr/lib/go' not in l and 'verifh/cmd' not in l]
    sites[fr[0].split(' ')[0] if fr else 'unknown']+=1
json.dump({"auxiliary":True,"note":"free-running race-detector pass over the C10 scenario bodies; reports unsynchronised accesses below the scheduler's granularity; never decides the property","races":len(blocks),"first_frames":dict(sites.most_common(20)),"scenarios":open('/verif/.work/race.out').read().splitlines()},open('/verif/findings/C10.race.json','w'),indent=1)
print("race reports:",len(blocks)); print(sites.most_common(8))
PY
