#!/usr/bin/env python3
"""c16_known.py <replay-dir>... : (manual, triage only) classify the violation keys of C16 triage runs
(VERIF_NO_KNOWN=1 VERIF_MAXVIOL=100000 /verif/vcheck C16 <tier>; copies of /verif/replays) by root
cause and write /verif/known_findings/C16-<class>.keys + the C16 entries of known_findings.json.
A key that fits no class aborts: it has to be looked at (a genuine new defect, or a false alarm
of the check).  Never run by a check."""
import json, glob, sys, collections

WHAT = {
 'addunified-opposite-y': "AddUnified (Brier-Joye unified formula) returns (0,0) when y_P = -y_Q although x_P != x_Q: on j=0 curves -phi(G) has that shape (BN254 AddUnified(G=(1,2), -phi(G)) gives O instead of the sum; same through evmprecompiles.ECAdd and on secp256k1, BLS12-381, BW6-761, native bls12-377 / bls24-315), and AddUnified(O, (1,0)) with the 2-torsion point of BW6-761 gives O",
 'eisenstein-hang': "prover hang: ScalarMul(G, s) for s in {r-1, r-2, lambda, -lambda} on emulated secp256k1 / BN254 / BLS12-381 / BW6-761 (and ECMul) never returns: the halfGCDEisenstein hint loops inside gnark-crypto eisenstein.HalfGCD (floor-division QuoRem); found by a child-process screen",
 'expmod-exp1': "Expmod / emulated ModExp returns the base unreduced when exp = 1: Expmod(3,1,2) = 3 instead of 1, Expmod(2,1,2) = 2 instead of 0",
 'pairing-infinity': "pairing checks (native bls12-377 PairingCheck, evm ECPair) fail with 'no inverse' when a G1 input is the point at infinity (0,0) although the native check accepts",
 'ecdsa-xR-ge-n': "ECDSA gadget rejects a valid signature whose x(R) >= n (r = x(R) mod n is compared bitwise with x(R) without reduction): secp256k1 r=2 example in the replay; same on P-256, P-384",
 'eddsa-S+l': "EdDSA gadget accepts the malleated signature S + l which the native verifier rejects (all 7 twisted Edwards curves)",
 'hints-complete-forgery': "SOUNDNESS (one dishonest hint): emulated scalarMulGLVAndFakeGLV with WithCompleteArithmetic treats a hinted result Q with Q.X == P.X as the 's = +-1' case (_selector1), replaces Q by a dummy point, skips the final accumulator check and RETURNS THE HINTED POINT unconstrained: on BN254 with P=G and any scalar (e.g. s=t or s=0) the circuit accepts result G, -G or (1,3); reaches evmprecompiles.ECMul",
 'hints-zero-decomposition': "SOUNDNESS (two dishonest hints): scalarMulGLVAndFakeGLV without complete arithmetic has no non-zero check on the decomposition (u1,u2,v1,v2 all answered 0) and then accepts any claimed point (claim E+G accepted for s in {t,2,2^h}, P=G); scalarMulFakeGLV has the analogous check",
 'complete-not-complete': "'complete' arithmetic is not complete: GLV curves s = lambda+1 unsatisfiable; P-256/P-384 scalarMulFakeGLV with s in {1, 3, r-1, r+1} (and therefore MultiScalarMul / JointScalarMulBase with such a term, also next to O or zero scalars) unsatisfiable (Acc := Add(Q,R) stays incomplete); native bls12-377 s = r+1 unsatisfiable",
 'incomplete-exceptional': "incomplete-arithmetic exceptional inputs inside the documented domain (scalar non-zero, point not (0,0)): ScalarMul / ScalarMulBase / MSM with s = 1 (emulated), s = 3 or r+-1 (P-256/P-384), s = r+1, lambda+1 (GLV curves, native), MSM with a repeated point or term, JointScalarMulBase whose partial products meet (s = r-1; (2G; 1,1); (2G; t,-2t)), ECMul with s = lambda+1 are unsatisfiable because an intermediate addition hits P = +-Q",
 'te-zero-mod-l': "twisted Edwards ScalarMul: scalars = 0 mod l give 'division by zero' for every point (P=B, s=0 or s=l)",
 'te-outside-prime-subgroup': "twisted Edwards ScalarMul is unsatisfiable (or, on Bandersnatch with s = l+1, returns a wrong point: [l+1](0,-1) = (0,-1) instead of (0,1)) for curve points outside the prime-order subgroup (T2=(0,-1), T4=(1/sqrt(a),0), B+T2): the hinted decomposition is verified modulo l only",
 'te-bandersnatch-identity': "Bandersnatch ScalarMul of the identity (0,1) with a non-zero scalar (l-1, q-1, t) is unsatisfiable",
}

def cls(k, d):
    err = str(d.get('error', ''))
    if k.endswith('/hang') and '/scalarmul/P=G/s=' in k and k.startswith('emulated:'): return 'eisenstein-hang'
    if k.startswith('evm:expmod/') and '/exp=1/' in k: return 'expmod-exp1'
    if k.endswith(':(O,q)(O,q2)'): return 'pairing-infinity'
    if k.startswith('ecdsa:') and k.endswith('/valid-with-x(R)>=n'): return 'ecdsa-xR-ge-n'
    if k.startswith('eddsa:') and k.endswith('/S+l'): return 'eddsa-S+l'
    if k.startswith('hints:'):
        if '/scalarmul/complete=true/' in k: return 'hints-complete-forgery'
        if '/scalarmul/complete=false/' in k: return 'hints-zero-decomposition'
        return None
    if '/addunified/' in k or k.startswith('evm:bnadd/'):
        if 'phi(G)' in k or (k.startswith('emulated:bw6-761/addunified/') and ('P=O,' in k or ',O/' in k)): return 'addunified-opposite-y'
        return None
    if k.startswith('te:'):
        if '/scalarmul/' not in k: return None
        if err == 'division by zero' and (k.endswith('/s=0') or k.endswith('/s=l')): return 'te-zero-mod-l'
        if any(('/P=' + p + '/') in k for p in ('T2=(0,-1)', 'B+T2', 'T4=(1/sqrt(a),0)')): return 'te-outside-prime-subgroup'
        if k.startswith('te:bandersnatch/scalarmul/P=I/'): return 'te-bandersnatch-identity'
        return None
    if d.get('what', '').startswith('the gadget cannot be satisfied on an input inside its documented domain'):
        if '/complete/' in k: return 'complete-not-complete'
        if k.startswith(('emulated:', 'native:', 'evm:bnmul/')): return 'incomplete-exceptional'
    return None

U = {}
for d in sys.argv[1:]:
    for f in glob.glob(d + '/C16-*.json'):
        x = json.load(open(f)); U[x['key']] = x['detail']
g = collections.defaultdict(list); bad = []
for k, d in U.items():
    c = cls(k, d)
    (g[c] if c else bad).append(k)
if bad:
    print('UNCLASSIFIED keys (look at them):'); [print('  ', k, json.dumps(U[k])[:200]) for k in sorted(bad)]; sys.exit(1)
kf = json.load(open('/verif/known_findings.json'))
kf['findings'] = [f for f in kf['findings'] if f.get('property') != 'C16']
for c in sorted(g):
    path = 'known_findings/C16-%s.keys' % c
    with open('/verif/' + path, 'w') as fh:
        fh.write('# exact violation keys of known finding C16-%s (generated by tools/c16_known.py from triage runs; never written by a check)\n' % c)
        for k in sorted(g[c]): fh.write(k + '\n')
    kf['findings'].append({'property': 'C16', 'key': 'C16-' + c, 'what': WHAT[c], 'keys_file': path})
    print(c, len(g[c]))
json.dump(kf, open('/verif/known_findings.json', 'w'), indent=1)
