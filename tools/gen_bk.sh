#!/bin/bash
# Derive the per-curve backend kits from the bn254 template by path substitution.
set -e
src=/verif/src/bk/bn254
gen() { # dir eccname pkgsuffix g2coord
  d=/verif/src/bk/$1; mkdir -p $d
  for f in $src/*.go; do
    sed -e "s#gnark-crypto/ecc/bn254#gnark-crypto/ecc/$1#g" \
        -e "s#gnark/backend/groth16/bn254#gnark/backend/groth16/$1#g" \
        -e "s#gnark/backend/plonk/bn254#gnark/backend/plonk/$1#g" \
        -e "s#gnark/constraint/bn254#gnark/constraint/$1#g" \
        -e "s#ecc\.BN254#ecc.$2#g" \
        -e "s#package bkbn254#package bk$3#g" \
        -e "$4" \
        -e "s#THIS FILE IS THE TEMPLATE#GENERATED from src/bk/bn254 by tools/gen_bk.sh; DO NOT EDIT#" \
        $f > $d/$(basename $f).tmp
    if ! cmp -s $d/$(basename $f).tmp $d/$(basename $f); then mv $d/$(basename $f).tmp $d/$(basename $f); else rm $d/$(basename $f).tmp; fi
  done
}
gen bls12-377 BLS12_377 bls12377 "s#NOCHANGE##"
gen bls12-381 BLS12_381 bls12381 "s#NOCHANGE##"
gen bls24-315 BLS24_315 bls24315 "s#NOCHANGE##"
gen bls24-317 BLS24_317 bls24317 "s#NOCHANGE##"
gen bw6-633 BW6_633 bw6633 "s#NOCHANGE##"
gen bw6-761 BW6_761 bw6761 "s#NOCHANGE##"
mkdir -p /verif/src/bkall
cat > /verif/src/bkall/bkall.go <<'EOG'
// Package bkall links every per-curve backend kit.
package bkall

import (
	_ "github.com/consensys/gnark/internal/verifh/bk/bls12-377"
	_ "github.com/consensys/gnark/internal/verifh/bk/bls12-381"
	_ "github.com/consensys/gnark/internal/verifh/bk/bls24-315"
	_ "github.com/consensys/gnark/internal/verifh/bk/bls24-317"
	_ "github.com/consensys/gnark/internal/verifh/bk/bn254"
	_ "github.com/consensys/gnark/internal/verifh/bk/bw6-633"
	_ "github.com/consensys/gnark/internal/verifh/bk/bw6-761"
)
EOG
