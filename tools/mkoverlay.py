#!/usr/bin/env python3
"""Generate a `go build -overlay` JSON mapping every file under /verif/src/<pkg>/ to the
virtual path /repo/internal/verifh/<pkg>/ (so harness code lives inside gnark's module and
may import its internal packages), plus optional extra replacement files listed in
/verif/.work/instr/*.json fragments ({"Replace": {...}}).  /repo is never written."""
import json, os, sys
src = '/verif/src'
out = sys.argv[1] if len(sys.argv) > 1 else '/verif/.work/overlay.json'
rep = {}
for root, dirs, files in os.walk(src):
    for f in files:
        if f.endswith('.go') or f.endswith('.s'):
            p = os.path.join(root, f)
            rel = os.path.relpath(p, src)
            if rel.startswith('_repo/'):
                # files to be ADDED to real gnark packages: src/_repo/<pkgpath>/zz_x.go
                rep['/repo/' + rel[len('_repo/'):]] = p
            else:
                rep['/repo/internal/verifh/' + rel] = p
frag_dir = os.environ.get('VERIF_OVERLAY_FRAGS', '')
for d in filter(None, frag_dir.split(':')):
    for f in sorted(os.listdir(d)):
        if f == 'overlay.json':
            rep.update(json.load(open(os.path.join(d, f)))['Replace'])
os.makedirs(os.path.dirname(out), exist_ok=True)
json.dump({'Replace': rep}, open(out, 'w'), indent=0)
