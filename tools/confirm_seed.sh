#!/bin/bash
# confirm_seed.sh <seed-out-dir> <demo-file> <repo-relative-demo-path> <go test pkg> <run regex>
# In a scratch worktree of /repo HEAD: demo must FAIL with the patch and PASS without it.
. /verif/env.sh
out=$1; demo=$2; rel=$3; pkg=$4; run=$5
wt=/tmp/cf/$(basename $out)
rm -rf $wt; git -C /repo worktree add -q --detach $wt HEAD || exit 2
mkdir -p $(dirname $wt/$rel); cp $out/$demo $wt/$rel
( cd $wt && git apply --whitespace=nowarn $out/patch.diff ) || { echo "PATCH-DOES-NOT-APPLY"; git -C /repo worktree remove --force $wt; exit 2; }
( cd $wt && go build ./... ) || { echo "BUILD-FAILS"; }
( cd $wt && timeout 1800 go test -count=1 -timeout 25m -run "$run" $pkg > /tmp/cf/with.log 2>&1 ); rcw=$?
( cd $wt && git checkout -q -- . && timeout 1800 go test -count=1 -timeout 25m -run "$run" $pkg > /tmp/cf/without.log 2>&1 ); rco=$?
echo "demo with patch: exit $rcw ($(tail -1 /tmp/cf/with.log)) ; without patch: exit $rco ($(tail -1 /tmp/cf/without.log))"
git -C /repo worktree remove --force $wt
[ $rcw -ne 0 ] && [ $rco -eq 0 ] && echo CONFIRMED || echo NOT-CONFIRMED
