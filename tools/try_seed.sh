#!/bin/bash
# try_seed.sh <seed-dir> <CHECK-ID> [tier] [extra vcheck args] — apply /verif/seeded/<x>/patch.diff
# to /repo, run one check, and undo the change straight afterwards.  Prints the verdict.
set -u
dir=$1; id=$2; tier=${3:-quick}; shift; shift; shift 2>/dev/null
if [ -n "$(git -C /repo status --porcelain)" ]; then echo "refusing: /repo has local changes"; exit 2; fi
git -C /repo apply --whitespace=nowarn "$dir/patch.diff" || { echo "patch does not apply"; exit 2; }
out=$(mktemp)
/verif/vcheck "$id" "$tier" "$@" > "$out" 2>&1; rc=$?
git -C /repo checkout -- . ; git -C /repo clean -fdq
echo "seed=$(basename $dir) check=$id tier=$tier exit=$rc"
grep -m5 "^VIOLATION\|^  key\|HARNESS-ERROR" "$out"
tail -3 "$out" | cut -c1-300
# restore the evidence of the unchanged tree is the caller's business (re-run the check)
rm -f "$out"
exit $rc
