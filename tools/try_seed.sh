#!/bin/bash
# try_seed.sh <seed-dir> <CHECK-ID> [tier] [extra vcheck args] — apply <seed-dir>/patch.diff to /repo,
# BUILD the check from that tree, undo the change straight afterwards (all under /verif/.work/repo.lock,
# which every vcheck build takes, so that no other check is ever built from the changed tree), then run
# the seeded binary.  Prints the verdict.
set -u
dir=$1; id=$2; tier=${3:-quick}; shift; shift; shift 2>/dev/null
mkdir -p /verif/.work
exec 8>/verif/.work/repo.lock
flock 8
if [ -n "$(git -C /repo status --porcelain)" ]; then echo "refusing: /repo has local changes"; exit 2; fi
git -C /repo apply --whitespace=nowarn "$dir/patch.diff" || { echo "patch does not apply"; exit 2; }
VCHECK_NOLOCK=1 VCHECK_PHASE=build VCHECK_SUFFIX=.seed /verif/vcheck "$id" "$tier" 8>&- ; brc=$?
git -C /repo checkout -- . ; git -C /repo clean -fdq
flock -u 8
[ $brc -ne 0 ] && { echo "seeded tree does not build the check (exit $brc)"; exit 3; }
out=$(mktemp)
VCHECK_PHASE=run VCHECK_SUFFIX=.seed /verif/vcheck "$id" "$tier" "$@" > "$out" 2>&1; rc=$?
echo "seed=$(basename $dir) check=$id tier=$tier exit=$rc"
grep -m5 "^VIOLATION\|^  key\|HARNESS-ERROR" "$out"
tail -3 "$out" | cut -c1-300; cp "$out" /verif/.work/last_try_seed.out
# the evidence file now describes the seeded run: re-run the check on the unchanged tree afterwards
rm -f "$out"
exit $rc
