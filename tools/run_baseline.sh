#!/bin/bash
# Runs the pinned suite (guard off) on a tree (default /repo) and lists tests of BASELINE.stable_pass that did not pass.
. /verif/env.sh
tree=${1:-/repo}; out=${2:-/verif/.work/baseline.json}
( cd $tree && go test -mod=mod -json -vet=off -count=1 -timeout 25m ./... ) > $out 2>/verif/.work/baseline.err
python3 - "$out" <<'PY'
import json,sys
passed=set(); failed=set()
for l in open(sys.argv[1]):
    try: e=json.loads(l)
    except: continue
    if 'Test' in e and e.get('Action') in('pass','fail'):
        k=e['Package']+'::'+e['Test']
        (passed if e['Action']=='pass' else failed).add(k)
b=json.load(open('/root/.vp/BASELINE.json'))
sp=b['stable_pass']
missing=[t for t in sp if t not in passed]
print('stable_pass',len(sp),'passed_now',len(passed),'failed_now',len(failed),'missing',len(missing))
for t in missing[:40]: print(' MISSING',t)
for t in sorted(failed)[:40]: print(' FAILED',t)
PY
