#!/usr/bin/env python3
"""shapegen: enumerates circuit-struct SHAPES (nesting, arrays, slices, pointer and embedded
fields, tag combinations) up to a bound and writes Go source with, for each shape, the type, a
constructor, an assignment builder and — computed HERE from the documented rules, not by gnark —
the expected order of witness leaves (public in declaration order, then secret) or the expected
'conflicting visibility' error.  Output: /verif/src/c07shapes/shapes_gen.go (deterministic)."""
import itertools, sys

LEAVES = ['V', 'A2', 'SL2', 'SL0', 'SLSL', 'SLA2', 'A2A2', 'A2A3', 'A3A2', 'SLA3']   # Variable, [2]Variable, []Variable len 2 / 0, [][]Variable 2x2, [][2]Variable len 2, [2][2]Variable
TAGS_LEAF = ['', 'nm', ',public', ',secret', ',inherit', '-', 'nm,public']
TAGS_NEST = ['', ',public', ',secret', '-']
# inner struct bodies (list of (kind, tag)); kind may itself be a nested struct ('N', wrapper, body)
INNER = [
    [('V', '')],
    [('V', ',public')],
    [('V', ''), ('A2', ',secret')],
    [('V', ',inherit'), ('SL2', '')],
    [(('N', 'val', [('V', ''), ('V', ',public')]), '')],
    # bodies mixing inheriting and explicitly tagged containers (element structs of arrays / slices)
    [('A2', ''), ('V', ',public'), ('A2', ',public')],
    [('V', ''), ('SL2', ',public')],
    [('A2', ',secret'), ('V', '')],
]
WRAP = ['val', 'ptr', 'emb', 'arr2', 'arr3', 'sl2']
ARRLEN = {'arr2': 2, 'arr3': 3, 'sl2': 2}

def field_variants(reduced):
    out = []
    for l in LEAVES:
        for t in (TAGS_LEAF if not reduced else ['', ',public', '-']):
            if t == ',inherit':
                continue  # a top-level element has no parent to inherit from (outside the documented domain)
            if reduced and (l in ('A2A2', 'A3A2', 'SLA3') or (l == 'A2A3' and t != ',public') or (l in ('SLSL', 'SLA2') and t == '-')):
                continue
            out.append((l, t))
    for w in WRAP:
        for bi, body in enumerate(INNER):
            if reduced and bi in (3,):
                continue
            if reduced and ((w in ARRLEN) != (bi >= 5)):
                continue  # reduced set: the new bodies only as array elements, arrays only with the new bodies
            if reduced and w == 'arr3':
                continue
            for t in (TAGS_NEST if not reduced else ['', ',public']):
                if bi == 3 and t not in (',public', ',secret'):
                    continue  # `inherit` only below a parent with an explicit visibility
                out.append((('N', w, body), t))
    return out

def shapes():
    full = field_variants(False)
    red = field_variants(True)
    S = []
    for f in full:
        S.append([f])
    for a in red:
        for b in red:
            S.append([a, b])
    small = [('V', ''), ('V', ',public'), ('A2', ',secret'), (('N', 'val', INNER[2]), ',public'), (('N', 'ptr', INNER[1]), ''), ('SL2', ',public'), (('N', 'arr3', INNER[5]), '')]
    for a in small:
        for b in small:
            for c in small:
                S.append([a, b, c])
    return S

class Gen:
    def __init__(self):
        self.types = []   # auxiliary struct type declarations
        self.n = 0

    def vis_of(self, tag, parent):
        """returns (visibility, conflict) following frontend/schema docs: an explicit option sets it, otherwise parent's"""
        opts = tag.split(',')[1:] if ',' in tag else []
        v = parent
        if 'secret' in opts:
            v = 'secret'
        elif 'public' in opts:
            v = 'public'
        conflict = parent is not None and v != parent
        return v, conflict

    def walk(self, tname, fields, parent_vis, path, leaves, alloc, st, declare=True):
        """emits the struct type tname (once); appends leaves (goexpr, vis) in declaration order; returns conflict flag"""
        lines = []
        conflict = False
        for i, (kind, tag) in enumerate(fields):
            fname = 'F%d' % i
            gtag = ''
            if tag == '-':
                gtag = ' `gnark:"-"`'
            elif tag != '':
                gtag = ' `gnark:"%s"`' % tag
            omitted = tag == '-'
            vis, cf = (parent_vis, False) if omitted else self.vis_of(tag, parent_vis)
            if cf:
                conflict = True
            if isinstance(kind, tuple):
                _, wrap, body = kind
                sub = '%s_S%d' % (tname, i)
                if wrap in ARRLEN:
                    n = ARRLEN[wrap]
                    subpath = path + '.' + fname
                    if wrap == 'sl2':
                        lines.append('\t%s []%s%s' % (fname, sub, gtag))
                        alloc.append('%s = make([]%s, %d)' % (subpath, sub, n))
                    else:
                        lines.append('\t%s [%d]%s%s' % (fname, n, sub, gtag))
                    for j in range(n):
                        if self.walk(sub, body, vis, '%s[%d]' % (subpath, j), leaves if not omitted else [], alloc, st, declare and j == 0) and not omitted:
                            conflict = True
                    continue
                if wrap == 'emb':
                    lines.append('\t%s%s' % (sub, gtag))
                    subpath = path + '.' + sub
                elif wrap == 'ptr':
                    lines.append('\t%s *%s%s' % (fname, sub, gtag))
                    subpath = path + '.' + fname
                    alloc.append('%s = new(%s)' % (subpath, sub))
                else:
                    lines.append('\t%s %s%s' % (fname, sub, gtag))
                    subpath = path + '.' + fname
                sub_leaves = [] if omitted else leaves
                if self.walk(sub, body, vis, subpath, sub_leaves if not omitted else [], alloc, st, declare) and not omitted:
                    conflict = True
            else:
                gotype = {'V': 'frontend.Variable', 'A2': '[2]frontend.Variable', 'SL2': '[]frontend.Variable', 'SL0': '[]frontend.Variable',
                          'SLSL': '[][]frontend.Variable', 'SLA2': '[][2]frontend.Variable', 'A2A2': '[2][2]frontend.Variable',
                          'A2A3': '[2][3]frontend.Variable', 'A3A2': '[3][2]frontend.Variable', 'SLA3': '[][3]frontend.Variable'}[kind]
                lines.append('\t%s %s%s' % (fname, gotype, gtag))
                p = path + '.' + fname
                if kind in ('SL2', 'SL0'):
                    alloc.append('%s = make([]frontend.Variable, %d)' % (p, 2 if kind == 'SL2' else 0))
                if kind == 'SLSL':
                    alloc.append('%s = [][]frontend.Variable{make([]frontend.Variable, 2), make([]frontend.Variable, 2)}' % p)
                if kind == 'SLA2':
                    alloc.append('%s = make([][2]frontend.Variable, 2)' % p)
                if kind == 'SLA3':
                    alloc.append('%s = make([][3]frontend.Variable, 2)' % p)
                if not omitted:
                    v = vis or 'secret'
                    if kind == 'V':
                        leaves.append((p, v))
                    elif kind in ('A2', 'SL2'):
                        leaves.append((p + '[0]', v))
                        leaves.append((p + '[1]', v))
                    elif kind in ('SLSL', 'SLA2', 'A2A2', 'A2A3', 'A3A2', 'SLA3'):
                        na, nb = {'A2A3': (2, 3), 'A3A2': (3, 2), 'SLA3': (2, 3)}.get(kind, (2, 2))
                        for a in range(na):
                            for b in range(nb):
                                leaves.append((p + '[%d][%d]' % (a, b), v))
        if declare:
            self.types.append('type %s struct {\n%s\n}\n' % (tname, '\n'.join(lines)))
        return conflict

def describe(fields):
    def k(kind):
        if isinstance(kind, tuple):
            return '%s{%s}' % (kind[1], describe(kind[2]))
        return kind
    return ' '.join('%s`%s`' % (k(kd), tg) for kd, tg in fields)

def main(out):
    g = Gen()
    reg = []
    body = []
    for si, fields in enumerate(shapes()):
        tname = 'T%d' % si
        leaves, alloc = [], []
        conflict = g.walk(tname, fields, None, 'c', leaves, alloc, None)
        define = ['func (c *%s) Define(api frontend.API) error {' % tname]
        for li, (p, v) in enumerate(leaves):
            define.append('\tapi.AssertIsEqual(%s, %d)' % (p, 101 + li))
        define.append('\treturn nil\n}\n')
        new = ['func new%s() *%s {\n\tc := new(%s)' % (tname, tname, tname)] + ['\t' + a for a in alloc] + ['\treturn c\n}\n']
        asg = ['func assign%s(val func(i int) any) frontend.Circuit {\n\tc := new%s()' % (tname, tname)]
        for li, (p, v) in enumerate(leaves):
            asg.append('\t%s = val(%d)' % (p, li))
        asg.append('\treturn c\n}\n')
        body += ['\n'.join(define), '\n'.join(new), '\n'.join(asg)]
        pub = [li for li, (p, v) in enumerate(leaves) if v == 'public']
        sec = [li for li, (p, v) in enumerate(leaves) if v != 'public']
        reg.append('\t{Name: %s, Desc: %s, New: func() frontend.Circuit { return new%s() }, Assign: assign%s, NLeaves: %d, Public: []int{%s}, Secret: []int{%s}, Conflict: %s},' % (
            '"%s"' % tname, '"%s"' % describe(fields).replace('"', "'"), tname, tname, len(leaves), ','.join(map(str, pub)), ','.join(map(str, sec)), 'true' if conflict else 'false'))
    src = ['// Code generated by /verif/tools/shapegen.py; DO NOT EDIT.\n', 'package c07shapes\n', 'import "github.com/consensys/gnark/frontend"\n',
           '// Shape is one enumerated circuit-struct shape with the leaf order expected from the documented rules.',
           'type Shape struct {\n\tName, Desc string\n\tNew func() frontend.Circuit\n\tAssign func(val func(i int) any) frontend.Circuit\n\tNLeaves int\n\tPublic, Secret []int // declaration indices of the leaves, in expected witness order\n\tConflict bool // the documented rules make this shape an error (conflicting visibility)\n}\n']
    src += g.types
    src += body
    src.append('var Shapes = []Shape{\n' + '\n'.join(reg) + '\n}\n')
    open(out, 'w').write('\n'.join(src))
    print('shapes:', len(reg))

if __name__ == '__main__':
    main(sys.argv[1] if len(sys.argv) > 1 else '/verif/src/c07shapes/shapes_gen.go')
