#!/usr/bin/env python3
"""Regenerates /verif/MANIFEST.json from the table below (single source of truth)."""
import json, subprocess
ids=[json.loads(l)['id'] for l in open('/verif/properties.jsonl')]
MC="model_checking"
checks = {
 "C05": dict(level=MC, ref="DESIGN.md §2 C05, §1.5",
   text="Explicit-state model checking of the constraint systems the real compiler emits over the 47-element field: for every API operation x operand-kind pattern x builder and every input tuple, breadth-first search over all values of every other wire (hint outputs included) computes the exact set of satisfiable outputs and compares it with the documented relation; every leaf is re-validated with big-integer arithmetic and every assignment the real solver produces is replayed as a model path. Exhaustive in F_47 for <=2 variable operands, boundary alphabet for 3+.",
   note="Trusts GetR1Cs/GetSparseR1Cs as the rows the backends prove (C02 checks that link for PLONK); algebraic gadgets only — statistical arguments are not decided over F_47; large-field hint substitution is bounded to <=2 departures over a finite alphabet.",
   technique="explicit-state model checking (BFS with live-wire state hashing) of compiled constraint systems over F_47 + deviation-bounded exploration of hint answers"),
}
try:
    hooks=[l.split()[0] for l in subprocess.check_output(['git','-C','/repo','log','--format=%h %s','f97c049..HEAD']).decode().splitlines() if ' verif-hook' in l or ' hook:' in l]
except Exception:
    hooks=[]
m={"version":1,
 "setup_cmd":"/verif/setup.sh",
 "hooks":{"guard":"verif","enable":"go build -tags verif -overlay /verif/.work/overlay.json (harness packages are overlaid into github.com/consensys/gnark/internal/verifh; instrumented copies replace files only in the overlay)",
   "baseline_off_cmd":"cd /repo && GOFLAGS=-mod=mod go test -json -vet=off -count=1 -timeout 25m ./...",
   "source_commits":hooks,"add_only":True},
 "engines":[
  {"name":"explore","path":"/verif/src/vh","serves_properties":sorted(checks),"kind_free_text":"deviation-bounded stateless explorer over Choose() points (schedules, hint answers, map orders, edits), parallel work-stealing DFS, determinism guard"},
  {"name":"satmc","path":"/verif/src/satmc","serves_properties":[c for c in ["C05","C13","C14"] if c in checks],"kind_free_text":"explicit-state satisfiability search over F_47 on compiled R1CS / sparse R1CS"},
 ],
 "checks":[],"not_applicable":[],
 "notes":"Every check is `/verif/vcheck <ID> <tier>`: regenerates the overlay, rebuilds the harness against /repo's working tree with -tags verif, runs it, writes evidence/<ID>.json. Exit 0 held / 1 VIOLATION / 3 harness error."}
for i in ids:
    if i in checks:
        c=checks[i]
        m["checks"].append({"property_id":i,"quick_cmd":f"/verif/vcheck {i} quick","thorough_cmd":f"/verif/vcheck {i} thorough",
          "evidence_file":f"/verif/evidence/{i}.json","replay_cmd_template":f"/verif/vcheck {i} quick -replay {{path}}","engine":"explore" if i not in ("C05",) else "satmc",
          "level_claimed":{"category":c["level"],"text":c["text"],"design_ref":c["ref"]},"level_note":c["note"],"technique":c["technique"]})
    else:
        m["not_applicable"].append({"property_id":i,"reason":"check not built yet (work in progress; see DESIGN.md §7)"})
json.dump(m,open('/verif/MANIFEST.json','w'),indent=1)
