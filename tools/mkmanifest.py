#!/usr/bin/env python3
"""Regenerates /verif/MANIFEST.json from the table below (single source of truth)."""
import json, subprocess
ids=[json.loads(l)['id'] for l in open('/verif/properties.jsonl')]
MC="model_checking"
checks = {
 "C01": dict(level=MC, ref="DESIGN.md §2 C01",
   text="The prover is the environment: starting from genuine Setup/Prove output for a catalogue of circuits covering every commitment bookkeeping path, every departure within a deviation bound (<=2 simultaneous structured edits of proof slots, commitment list and public witness; every single-wire corruption of the solved assignment pushed through the real prover via the post-solve hook) is enumerated exhaustively and offered to the real Verify in memory and through both encodings; accept/reject must equal a textbook reference verifier written from the paper, and validity-preserving transformations must be accepted.",
   note="Bounded adversary: the finite structured edit alphabet, not all polynomial-time provers; gnark-crypto pairing and subgroup arithmetic trusted; quick = 3 curves, thorough = 7 curves and all edit pairs.",
   technique="deviation-bounded exhaustive exploration of adversarial prover answers against the real verifier, judged by a reference verifier"),
 "C02": dict(level=MC, ref="DESIGN.md §2 C02",
   text="(1) Setup structure, exhaustively per system: every selector column and the three permutation columns are recomputed from the constraint list and committed with the Lagrange SRS and must equal the verifying-key digests; for every pair of the 3n wire positions 'same permutation cycle' iff 'same wire' (catalogue circuits and the sparse systems of the API program generator). (2) The prover is the environment: every single structured edit of every proof element, claimed value, list and public witness, and pairs {witness edit} x {list edit}, offered in memory and through both encodings, must be rejected while genuine pairs are accepted. (3) Every single-row corruption of L/R/O — a violated gate, or a violated copy constraint with every gate satisfied — pushed through the real prover via the post-solve hook must be rejected.",
   note="Bounded adversary (structured edit alphabet, <=2 departures); a-priori oracle 'Fiat-Shamir binds every element' instead of a second PLONK verifier; gnark-crypto KZG commit trusted for recomputing digests.",
   technique="exhaustive structural check of Setup output against the constraint list + deviation-bounded exploration of adversarial prover answers against the real verifier"),
 "C03": dict(level=MC, ref="DESIGN.md §2 C03",
   text="(P) Exhaustive product catalogue+edge shapes (no secret input, single gate, only commitments, 0-3 commitments of public/secret/mixed/previously committed values, constant-folded parts) x {Groth16, PLONK} x curves x every consistent option tuple (hash-to-field, challenge hash, KZG folding hash, statistical ZK, all together) x assignments: Setup/Prove/Verify succeed for satisfying assignments, Prove returns an error for the others. (S) Stateless model checking of the real provers: the instrumented PLONK and Groth16 provers run under the controlled scheduler and EVERY interleaving of their stage goroutines within the delay bound is executed, for a valid witness (the proof must verify), an invalid witness, and every single failure injected at an `err != nil` site: the error must be returned and every goroutine must terminate (deadlock = no enabled thread, detected exactly).",
   note="(S) delay bound 1 quick / 2 thorough on the bn254 instantiation; gnark-crypto kernels and hint functions are atomic steps; (P) quick = 3 curves.",
   technique="exhaustive configuration product + stateless model checking of the provers' goroutine pipelines under a controlled scheduler with single-fault injection"),
 "C04": dict(level=MC, ref="DESIGN.md §2 C04, §1.6b",
   text="Bounded-exhaustive enumeration of straight-line API programs (all of depth 1 over the full operand pool, all connected programs of depth 2 and a linear sub-alphabet at depth 3), each compiled by both real builders under every compress threshold and solved by the real solver on all of F_47 (or a boundary alphabet) and on boundary values of the curve fields; verdict and every exposed value must equal a big.Int reference of the documented meaning and any exposed value off by one must fail.",
   note="Reference = doc comments of frontend.API; depth bound 2 (3 for the linear sub-alphabet); large fields on boundary alphabets only.",
   technique="bounded-exhaustive operation-sequence enumeration against a reference model (explicit enumeration of programs x assignments)"),
 "C06": dict(level=MC, ref="DESIGN.md §2 C06",
   text="Every enumerated (system, witness, task-count) case runs the real solver and an independent sequential big.Int reference solver; returned W/A/B/C or L/R/O and the hooked wire vector are re-evaluated row by row and compared with the reference, failures must be justified by the reference, the level invariant (no instruction reads a wire written in the same or a later level) is checked on every system, and the (level size, nbTasks) grid of the parallel scheduler's chunking arithmetic is enumerated exhaustively.",
   note="Worker interleavings inside one level are covered by the level-invariant check plus the C10 scheduler exploration; reference solver covers generic rows/gates, hints, lookup blueprint.",
   technique="exhaustive enumeration of systems x witnesses x task counts against a sequential reference solver; explicit invariant check on every instruction level"),
 "C08": dict(level=MC, ref="DESIGN.md §2 C08",
   text="The untrusted prover's bytes are the environment: from genuine Groth16 and PLONK proofs and public witnesses on each curve, EVERY prefix of every encoding, every single-byte substitution (quick: 4 values/position, thorough: all 255), every list-length-field rewrite with matching and non-matching payload, every list length 0..n+2, every witness header combination from the alphabet and pairs of one proof edit with one witness edit are decoded (with and without Witness.Public()) and verified in isolated worker processes; no panic or process crash, verdict equal to the reference (Groth16) / genuine-pair-only (PLONK), inconsistent structure reported as an error.",
   note="Length prefixes that make gnark-crypto's own decoders allocate gigabytes are excluded (dependency resource question): such worker deaths are attributed by stack frame and counted, any crash whose first frame is in gnark is a violation.",
   technique="exhaustive enumeration of single-fault byte/structure mutations of genuine messages (deviation bound 1, pairs for list x header) against the real decoders and verifiers, with process-level crash detection"),
 "C10": dict(level=MC, ref="DESIGN.md §2 C10, §1.2",
   text="Stateless model checking of the implementation: instrumented copies of the current solver, lookup blueprint, provers and verifiers (goinstr rewrites go/chan/select/sync/errgroup into scheduler calls and adds statement-level points in the functions that touch shared state) run under the controlled scheduler vsched; for each scenario (2 Solves sharing a lookup-table system; 2 Proves sharing an option slice; 2 Verifies sharing an option value that carries a hash; the solver's own workers on a wide level) EVERY schedule within the deviation bound is executed and each call must return what it returns alone on fresh objects — no panic, no deadlock (detected exactly: no enabled thread). Plus every call history of length <=2 (thorough 3) on one shared system/key.",
   note="Threads are serialised at synchronisation operations and at statement-level points of the listed files (instr.json); preemption bound 1 quick / 2 thorough (delay bound for the provers' pipelines); bn254 instantiation of the generated per-curve code; data races below statement granularity need the separate free-running -race pass.",
   technique="stateless model checking of the real code under a controlled scheduler (preemption/delay-bounded exhaustive schedule enumeration with partial-order reduction for call-private channels)"),
 "C11": dict(level=MC, ref="DESIGN.md §2 C11",
   text="The only nondeterminism of single-threaded compilation is map iteration order: a go/types scan of the current tree lists every `range` over a map on the compile path and goinstr rewrites each into a choice of order; for one circuit per stateful gadget family (hints, commitments, lookup tables, range checks, emulated arithmetic, deferred callbacks, multicommit, GKR, constant tables, the wire->constraint query with 0..3 missing wires) x builders x compile options and the API programs of the generator, ALL orders within the deviation bound (all k! for k<=4 keys, <=2 sites departing) are executed and the serialized bytes must be identical to three fresh-process compilations; all histories of <=2 (thorough 3) compilations of fresh circuit values are compared with the fresh-process bytes; two compilations are interleaved under the controlled scheduler at every statement of the global hint registry.",
   note="Assumes no time/randomness/pointer-order dependence in the frontend (none found by the scan); cross-process reference = 3 fresh processes of the same binary.",
   technique="exhaustive enumeration of map-iteration orders (environment choices) on instrumented real code + history enumeration + scheduler exploration"),
 "C05": dict(level=MC, ref="DESIGN.md §2 C05, §1.5",
   text="Explicit-state model checking of the constraint systems the real compiler emits over the 47-element field: for every API operation x operand-kind pattern x builder and every input tuple, breadth-first search over all values of every other wire (hint outputs included) computes the exact set of satisfiable outputs and compares it with the documented relation; every leaf is re-validated with big-integer arithmetic and every assignment the real solver produces is replayed as a model path. Exhaustive in F_47 for <=2 variable operands, boundary alphabet for 3+.",
   note="Trusts GetR1Cs/GetSparseR1Cs as the rows the backends prove (C02 checks that link for PLONK); algebraic gadgets only — statistical arguments are not decided over F_47; large-field hint substitution is bounded to <=2 departures over a finite alphabet.",
   technique="explicit-state model checking (BFS with live-wire state hashing) of compiled constraint systems over F_47 + deviation-bounded exploration of hint answers"),
 "C20": dict(level=MC, ref="DESIGN.md §2 C20",
   text="The prover's randomness is an environment answer: crypto/rand.Reader is replaced by a reader that identifies every draw by (gnark call site, index). Per curve, catalogue circuit, backend and statistical-ZK setting the default run discovers all draws; ALL single departures (draw := 0, draw := another value) are executed and the set of proof elements that changes is compared with the protocol's dependency matrix; every blinded element must depend on a draw and differ from the all-zero-randomness proof, whose Ar / L,R,O commitments are validated against commitments recomputed from the proving key and the wire values captured by the post-solve hook; the 1st, 2nd and 3rd proof of one process draw fresh values and differ pairwise in every blinded element.",
   note="Decides presence, freshness and reach of every blinding draw; the distribution of the blinding (zero-knowledge proper) is not decidable by enumeration. Assumes all randomness flows through crypto/rand.Reader.",
   technique="exhaustive single-departure exploration of the randomness environment (deviation bound 1) with a dependency-matrix oracle, plus history of 3 successive proofs"),
}
try:
    hooks=[l.split()[0] for l in subprocess.check_output(['git','-C','/repo','log','--format=%h %s','f97c049..HEAD']).decode().splitlines() if ' verif-hook' in l or ' hook:' in l]
except Exception:
    hooks=[]
m={"version":1,
 "setup_cmd":"/verif/setup.sh",
 "hooks":{"guard":"verif","enable":"go build -tags verif -overlay /verif/.work/overlay.json (harness packages are overlaid into github.com/consensys/gnark/internal/verifh; instrumented copies replace files only in the overlay)",
   "baseline_off_cmd":"cd /repo && GOFLAGS=-mod=mod go test -json -vet=off -count=1 -timeout 25m ./...",
   "source_commits":hooks,"add_only":True},
 "engines":[
  {"name":"explore","path":"/verif/src/vh","serves_properties":sorted(checks),"kind_free_text":"deviation-bounded stateless explorer over Choose() points (schedules, hint answers, map orders, edits), parallel work-stealing DFS, determinism guard"},
  {"name":"vsched+goinstr","path":"/verif/src/vsched","serves_properties":[c for c in ["C03","C06","C10","C11"] if c in checks],"kind_free_text":"controlled cooperative scheduler over real goroutines + source instrumenter (go/ast) producing overlay copies of the current tree; deadlock = no enabled thread"},
  {"name":"satmc","path":"/verif/src/satmc","serves_properties":[c for c in ["C05","C13","C14"] if c in checks],"kind_free_text":"explicit-state satisfiability search over F_47 on compiled R1CS / sparse R1CS"},
 ],
 "checks":[],"not_applicable":[],
 "notes":"Every check is `/verif/vcheck <ID> <tier>`: regenerates the overlay, rebuilds the harness against /repo's working tree with -tags verif, runs it, writes evidence/<ID>.json. Exit 0 held / 1 VIOLATION / 3 harness error."}
for i in ids:
    if i in checks:
        c=checks[i]
        m["checks"].append({"property_id":i,"quick_cmd":f"/verif/vcheck {i} quick","thorough_cmd":f"/verif/vcheck {i} thorough",
          "evidence_file":f"/verif/evidence/{i}.json","replay_cmd_template":f"/verif/vcheck {i} quick -replay {{path}}","engine":"explore" if i not in ("C05",) else "satmc",
          "level_claimed":{"category":c["level"],"text":c["text"],"design_ref":c["ref"]},"level_note":c["note"],"technique":c["technique"]})
    else:
        m["not_applicable"].append({"property_id":i,"reason":"check not built yet (work in progress; see DESIGN.md §7)"})
json.dump(m,open('/verif/MANIFEST.json','w'),indent=1)
