// maprange: typed scan of gnark packages for `range` statements over maps (the only source of
// iteration-order nondeterminism in single-threaded compilation). Prints JSON
// [{"file": "...", "line": N}] for the requested package patterns of the module in -dir.
package main

import (
	"encoding/json"
	"flag"
	"fmt"
	"go/ast"
	"go/types"
	"os"
	"sort"
	"strings"

	"golang.org/x/tools/go/packages"
)

type site struct {
	File string `json:"file"`
	Line int    `json:"line"`
}

func main() {
	dir := flag.String("dir", "/repo", "")
	flag.Parse()
	cfg := &packages.Config{Mode: packages.NeedName | packages.NeedFiles | packages.NeedSyntax | packages.NeedTypes | packages.NeedTypesInfo | packages.NeedImports | packages.NeedDeps, Dir: *dir, Tests: false}
	pkgs, err := packages.Load(cfg, flag.Args()...)
	if err != nil {
		fmt.Fprintln(os.Stderr, "maprange:", err)
		os.Exit(1)
	}
	var out []site
	for _, p := range pkgs {
		if len(p.Errors) > 0 {
			fmt.Fprintln(os.Stderr, "maprange: package errors in", p.PkgPath, p.Errors[0])
			os.Exit(1)
		}
		for _, f := range p.Syntax {
			ast.Inspect(f, func(n ast.Node) bool {
				rs, ok := n.(*ast.RangeStmt)
				if !ok {
					return true
				}
				t := p.TypesInfo.TypeOf(rs.X)
				if t == nil {
					return true
				}
				if _, isMap := t.Underlying().(*types.Map); isMap {
					pos := p.Fset.Position(rs.Pos())
					if !strings.HasSuffix(pos.Filename, "_test.go") {
						out = append(out, site{pos.Filename, pos.Line})
					}
				}
				return true
			})
		}
	}
	sort.Slice(out, func(i, j int) bool {
		if out[i].File != out[j].File {
			return out[i].File < out[j].File
		}
		return out[i].Line < out[j].Line
	})
	json.NewEncoder(os.Stdout).Encode(out)
}
