#!/bin/bash
# smoke test: every thorough command starts, honours a short internal budget and exits 0
for id in $(python3 -c "import json;print(' '.join(c['property_id'] for c in json.load(open('/verif/MANIFEST.json'))['checks']))"); do
  s=$(date +%s)
  out=$(/verif/vcheck $id thorough -budget 90s 2>&1); rc=$?
  e=$(( $(date +%s) - s ))
  echo "$id thorough(budget 90s) exit=$rc total=${e}s | $(echo "$out" | grep "^$id tier=" | tail -1 | cut -c1-150)"
  [ $rc -ne 0 ] && echo "$out" | grep -m4 "key:\|HARNESS-ERROR\|panic"
done
