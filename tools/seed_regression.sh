#!/bin/bash
# seed_regression.sh — apply every kept seeded change (/verif/seeded/*/patch.diff) in turn, run the quick
# check of the property it targets (tools/try_seed.sh: build under the repo lock, undo, run) and
# report which are caught (exit 1 with a VIOLATION line).  /repo must be clean.
cd /verif
for d in seeded/*/; do
  s=$(basename $d); id=${s%%-*}
  [ -f $d/patch.diff ] || continue
  args=""
  out=$(tools/try_seed.sh /verif/$d $id quick $args 2>&1); rc=$?
  k=$(echo "$out" | grep -m1 "^  key:" | cut -c1-150)
  echo "$s check=$id exit=$rc $k"
done
