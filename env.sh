# sourced by every script
export GOFLAGS=-mod=mod GOPROXY=off GOSUMDB=off GOTOOLCHAIN=local
export GOCACHE=${GOCACHE:-/root/.cache/go-build}
export VERIF=/verif
